(* Stm/InvProofs2.v - layer 2 (values, logs) is preserved by every accepted event. *)
From Grevm Require Import Base.Util Stm.Spec Stm.Core Stm.Lemmas Stm.Inv Stm.InvProofs1.

Section P.
Variable b : block.

Lemma follows_app p log r :
  follows p (log ++ [r]) = match follows p log with Some p' => follows p' [r] | None => None end.
Proof.
  revert p; induction log as [|x log IH]; intros p; [reflexivity|].
  cbn [app follows]. destruct p, x; auto.
  - destruct (Nat.eqb l l0); auto.
  - destruct (Nat.eqb l l0); auto.
Qed.

Lemma lb_S_some f j k e : lb f j = Some (k, e) -> exists k' e', lb f (S j) = Some (k', e').
Proof. simpl. destruct (f j); eauto. Qed.

Lemma lb_mono_some f j j' : j <= j' -> lb f j <> None -> lb f j' <> None.
Proof.
  induction 1; auto. intros H0. specialize (IHle H0). simpl. destruct (f m); congruence.
Qed.

(* entries below the committed index never change: their owners are final *)
Definition mv_below_same (s s' : state) : Prop :=
  forall l k, k < cidx s -> mv s' l k = mv s l k.

Lemma clean_base_false_keep s s' l :
  mv_below_same s s' -> cidx s <= cidx s' -> clean_base b s l = false -> clean_base b s' l = false.
Proof.
  unfold clean_base. intros Hm Hc.
  assert (Hlb : forall x, lb (mv s x) (cidx s) <> None -> lb (mv s' x) (cidx s') <> None).
  { intros x Hx. apply (lb_mono_some _ (cidx s)); auto.
    rewrite (lb_ext (mv s' x) (mv s x)); auto. }
  destruct (lb (mv s l) (cidx s)) eqn:E1.
  - intros _. destruct (lb (mv s' l) (cidx s')) eqn:E2; auto. exfalso. apply (Hlb l); congruence.
  - destruct (marker b l) as [m|]; [|discriminate].
    destruct (lb (mv s m) (cidx s)) eqn:E3; [|discriminate]. intros _.
    destruct (lb (mv s' l) (cidx s')); auto.
    destruct (lb (mv s' m) (cidx s')) eqn:E4; auto. exfalso. apply (Hlb m); congruence.
Qed.

Lemma base_logged_keep s s' log :
  mv_below_same s s' -> cidx s <= cidx s' -> base_logged_ok b s log -> base_logged_ok b s' log.
Proof.
  intros Hm Hc H l v Hin. destruct (H l v Hin) as [|Hd]; auto. right. eapply clean_base_false_keep; eauto.
Qed.

(* a transaction inside a critical section is not below the committed index *)
Lemma cs_ge_cidx s j : inv1 b s -> cs s j <> None -> cidx s <= j.
Proof.
  intros I H. pose proof (cs_not_final b s j I H) as Hnf.
  destruct (Nat.lt_ge_cases j (cidx s)) as [Hlt|]; auto. exfalso. apply Hnf.
  apply (i1_final b s I). destruct (i1_commit b s I) as (A & B & _). lia.
Qed.

(* generic preservation: the event changes entries only of a transaction that is in a critical
   section, hist only grows, logs only grow at one transaction *)
Record step_shape (s s' : state) : Prop := {
  sh_below : mv_below_same s s';
  sh_cidx : cidx s <= cidx s';
  sh_hist : forall l k n v, hist s l k n = Some v -> hist s' l k n = Some v;
  sh_mv_hist : forall l k e, mv s' l k = Some e -> hist s' l k (einc e) = Some (eval e);
  sh_mv_inc : forall l k e, mv s' l k = Some e -> einc e <= inc s' k;
}.

Lemma log_hist_keep s s' log :
  (forall l k n v, hist s l k n = Some v -> hist s' l k n = Some v) -> log_hist s log -> log_hist s' log.
Proof. intros H L l k n v Hin. apply H. eapply L; eauto. Qed.

Lemma inv2_from_shape s s' :
  inv2 b s -> step_shape s s' ->
  (forall j n p log bl pub ph owe w, cs s' j = Some (CExec n p log bl pub ph owe w) ->
     (exists n0 bl0 pub0 ph0 owe0 w0, cs s j = Some (CExec n0 p log bl0 pub0 ph0 owe0 w0)) \/
     (log_hist s' log /\ follows (body_of b j) log = Some p /\ base_logged_ok b s' log /\ base_after_miss b log)) ->
  (forall j r, res s' j = Some r -> res s j = Some r \/
     (log_hist s' (rlog r) /\ base_logged_ok b s' (rlog r) /\ base_after_miss b (rlog r) /\
      match rres r with ROk _ _ => follows (body_of b j) (rlog r) = Some (Done (rres r)) | _ => rlog r = [] end)) ->
  inv2 b s'.
Proof.
  intros [Imh Imi Icl Irl] [Sb Sc Sh Smh Smi] Hcs Hres. constructor; auto.
  - intros j n p log bl pub ph owe w E. destruct (Hcs _ _ _ _ _ _ _ _ _ E) as [(n0&bl0&pub0&ph0&owe0&w0&E0)|H]; auto.
    destruct (Icl _ _ _ _ _ _ _ _ _ E0) as (A & B & C & D). repeat split; auto.
    + eapply log_hist_keep; eauto.
    + eapply base_logged_keep; eauto.
  - intros j r E. destruct (Hres j r E) as [E0|H]; auto.
    destruct (Irl j r E0) as (A & B & C & D). repeat split; auto.
    + eapply log_hist_keep; eauto.
    + eapply base_logged_keep; eauto.
Qed.

Lemma shape_same s s' :
  inv2 b s -> mv s' = mv s -> hist s' = hist s -> (forall k, inc s k <= inc s' k) -> cidx s <= cidx s' ->
  step_shape s s'.
Proof.
  intros [Imh Imi _ _] Hm Hh Hi Hc. constructor; auto.
  - intros l k _. now rewrite Hm.
  - intros l k n v. now rewrite Hh.
  - intros l k e. rewrite Hm, Hh. apply Imh.
  - intros l k e. rewrite Hm. intros E. specialize (Imi l k e E). specialize (Hi k). lia.
Qed.

(* events that leave mv, hist, logs and results alone *)
Lemma inv2_quiet s s' :
  inv2 b s -> mv s' = mv s -> hist s' = hist s -> (forall k, inc s k <= inc s' k) -> cidx s <= cidx s' ->
  res s' = res s ->
  (forall j n p log bl pub ph owe w, cs s' j = Some (CExec n p log bl pub ph owe w) ->
     exists n0 bl0 pub0 ph0 owe0 w0, cs s j = Some (CExec n0 p log bl0 pub0 ph0 owe0 w0)) ->
  inv2 b s'.
Proof.
  intros I Hm Hh Hi Hc Hr Hcs. eapply inv2_from_shape; eauto.
  - eapply shape_same; eauto.
  - intros j r E. left. now rewrite <- Hr.
Qed.

Ltac quiet_cs :=
  let j0 := fresh "j0" in let E0 := fresh "E0" in
  intros j0 ? ? ? ? ? ? ? ? E0; simpl in E0;
  match type of E0 with
  | upd _ ?j _ j0 = _ =>
      destruct (Nat.eq_dec j0 j) as [->|?];
      [ rewrite upd_same in E0; try discriminate E0; inversion E0; subst; eauto 10
      | rewrite upd_other in E0 by auto; eauto 10 ]
  | _ => eauto 10
  end.

Lemma inv2_xclaim s j stc n s' : inv2 b s -> do_xclaim b s j stc n = Some s' -> inv2 b s'.
Proof.
  intros I H. unfold do_xclaim in H. crunch H; subst; auto.
  all: eapply inv2_quiet; eauto; simpl; auto; try quiet_cs.
  all: intros k; upd_cases k j; lia.
Qed.

Lemma inv2_xbegin s j n s' : inv2 b s -> do_xbegin b s j n = Some s' -> inv2 b s'.
Proof.
  intros I H. unfold do_xbegin in H. crunch H; subst.
  apply (inv2_from_shape s _ I).
  - eapply shape_same; eauto.
  - intros j0 n0 p log bl pub ph owe w E1. simpl in E1. upd_cases j0 j.
    + inversion E1; subst. right. unfold body_of. rewrite E0. repeat split; simpl; auto.
      * intros l k n1 v [].
      * intros l v [].
      * intros l v [].
    + left. eauto 10.
  - intros j0 r E1. left. exact E1.
Qed.

Lemma log_hist_app s log r :
  log_hist s log ->
  match r with RMv l (Some (k, n, v)) => hist s l k n = Some v | _ => True end ->
  log_hist s (log ++ [r]).
Proof.
  intros H Hr l k n v Hin. apply in_app_or in Hin. destruct Hin as [Hin|[Heq|[]]]; eauto.
  subst r. exact Hr.
Qed.

Lemma base_logged_app s log r :
  base_logged_ok b s log ->
  match r with RB l v => v = pre b l \/ clean_base b s l = false | _ => True end ->
  base_logged_ok b s (log ++ [r]).
Proof.
  intros H Hr l v Hin. apply in_app_or in Hin. destruct Hin as [Hin|[Heq|[]]]; eauto.
  subst r. exact Hr.
Qed.

Lemma base_after_miss_app log r :
  base_after_miss b log ->
  match r with
  | RB l v => lookup_ver l (mv_reads log) = Some None /\
              match marker b l with Some m => lookup_ver m (mv_reads log) = Some None | None => True end
  | _ => True
  end ->
  base_after_miss b (log ++ [r]).
Proof.
  intros H Hr l v Hin. apply in_app_or in Hin. destruct Hin as [Hin|[Heq|[]]].
  - destruct (H l v Hin) as (p1 & p2 & E & A & B). exists p1, (p2 ++ [r]). split; auto.
    rewrite E, <- app_assoc. reflexivity.
  - subst r. exists log, []. destruct Hr as [A B]. repeat split; auto.
Qed.

Lemma lb_entry f j k e : lb f j = Some (k, e) -> f k = Some e.
Proof. intros H. apply lb_some in H. tauto. Qed.

Lemma inv2_xread s j l seen est s' : inv2 b s -> do_xread s j l seen est = Some s' -> inv2 b s'.
Proof.
  intros I H. unfold do_xread in H. crunch H; subst; bool_hyps; subst.
  all: destruct (i2_cs_log b s I _ _ _ _ _ _ _ _ _ E) as (L1 & L2 & L3 & L4).
  all: apply (inv2_from_shape s _ I); [eapply shape_same; eauto | | intros j0 r E9; left; exact E9].
  all: intros j0 n0 p0 log0 bl0 pub0 ph0 owe0 w0 E9; simpl in E9; upd_cases j0 j; [|left; eauto 10].
  all: inversion E9; subst; right; repeat split.
  all: try (apply log_hist_app; auto).
  all: try (rewrite follows_app, L2; cbn [follows]; rewrite Nat.eqb_refl; reflexivity).
  all: try (apply base_logged_app; simpl; auto).
  all: try (apply base_after_miss_app; simpl; auto).
  all: try (match goal with Hl : lb _ _ = Some _ |- _ => apply lb_entry in Hl; apply (i2_mv_hist b s I) in Hl; exact Hl end).
Qed.

Lemma inv2_xbase s j l v s' : inv2 b s -> do_xbase b s j l v = Some s' -> inv2 b s'.
Proof.
  intros I H. unfold do_xbase in H. crunch H; subst; bool_hyps; subst.
  all: destruct (i2_cs_log b s I _ _ _ _ _ _ _ _ _ E) as (L1 & L2 & L3 & L4).
  all: apply (inv2_from_shape s _ I); [eapply shape_same; eauto | | intros j0 r E9; left; exact E9].
  all: intros j0 n0 p0 log0 bl0 pub0 ph0 owe0 w0 E9; simpl in E9; upd_cases j0 j; [|left; eauto 10].
  all: inversion E9; subst; right; repeat split.
  all: try (apply log_hist_app; simpl; auto).
  all: try (rewrite follows_app, L2; cbn [follows]; rewrite Nat.eqb_refl; reflexivity).
  all: try (apply base_logged_app; simpl; auto).
  all: try (apply base_after_miss_app; simpl; auto).
  - unfold clean_base in *; simpl. destruct (lb (mv s l0) (cidx s)); auto.
    destruct (marker b l0) as [m|]; [destruct (lb (mv s m) (cidx s)); auto|];
      left; apply Nat.eqb_eq; exact Hg2.
  - split.
    + destruct (lookup_ver l0 (mv_reads log)) as [[|]|]; try discriminate; reflexivity.
    + destruct (marker b l0) as [m|]; auto.
      destruct (lookup_ver m (mv_reads log)) as [[|]|]; try discriminate; reflexivity.
Qed.

Lemma inv2_xben s j o s' : inv2 b s -> do_xben s j o = Some s' -> inv2 b s'.
Proof.
  intros I H. unfold do_xben in H. crunch H; subst.
  all: destruct (i2_cs_log b s I _ _ _ _ _ _ _ _ _ E) as (L1 & L2 & L3 & L4).
  all: apply (inv2_from_shape s _ I); [eapply shape_same; eauto | | intros j0 r E9; left; exact E9].
  all: intros j0 n0 p0 log0 bl0 pub0 ph0 owe0 w0 E9; simpl in E9; upd_cases j0 j; [|left; eauto 10].
  all: inversion E9; subst; right; repeat split.
  all: try (apply log_hist_app; simpl; auto).
  all: try (rewrite follows_app, L2; cbn [follows]; reflexivity).
  all: try (apply base_logged_app; simpl; auto).
  all: try (apply base_after_miss_app; simpl; auto).
Qed.

(* a single-point change of mv at (l, j) by a transaction inside a critical section *)
Lemma shape_point s s' l j :
  inv1 b s -> inv2 b s -> cs s j <> None ->
  (forall l' k, (l', k) <> (l, j) -> mv s' l' k = mv s l' k) ->
  (forall l' k n v, hist s l' k n = Some v -> hist s' l' k n = Some v) ->
  inc s' = inc s -> cidx s' = cidx s ->
  (forall e, mv s' l j = Some e -> hist s' l j (einc e) = Some (eval e) /\ einc e <= inc s j) ->
  step_shape s s'.
Proof.
  intros I1 I2 Hcs Hm Hh Hi Hc He. pose proof (cs_ge_cidx s j I1 Hcs) as Hge. constructor.
  - intros l' k Hk. apply Hm. intros Heq; inversion Heq; subst; lia.
  - lia.
  - exact Hh.
  - intros l' k e E. destruct (Nat.eq_dec l' l) as [->|Hl]; [destruct (Nat.eq_dec k j) as [->|Hk]|].
    + apply He; auto.
    + rewrite Hm in E by congruence. apply Hh. apply (i2_mv_hist b s I2); auto.
    + rewrite Hm in E by congruence. apply Hh. apply (i2_mv_hist b s I2); auto.
  - intros l' k e E. rewrite Hi. destruct (Nat.eq_dec l' l) as [->|Hl]; [destruct (Nat.eq_dec k j) as [->|Hk]|].
    + apply He; auto.
    + rewrite Hm in E by congruence. apply (i2_mv_inc b s I2 _ _ _ E).
    + rewrite Hm in E by congruence. apply (i2_mv_inc b s I2 _ _ _ E).
Qed.

Ltac same_cs_tac j :=
  let j0 := fresh "j0" in let E9 := fresh "E9" in
  intros j0 ? ? ? ? ? ? ? ? E9; simpl in E9;
  destruct (Nat.eq_dec j0 j) as [->|?];
  [ rewrite ?upd_same in E9; try discriminate E9; inversion E9; subst; left; eauto 10
  | rewrite ?upd_other in E9 by auto; left; eauto 10 ].

Lemma inv2_xpublish s j l n v est s' : inv1 b s -> inv2 b s -> do_xpublish s j l n v est = Some s' -> inv2 b s'.
Proof.
  intros I1 I H. unfold do_xpublish in H. crunch H; subst; bool_hyps; subst.
  all: pose proof (i1_cs b s I1 j) as C; unfold cs_ok in C; rewrite E in C; destruct C as (C1 & _).
  all: apply (inv2_from_shape s _ I); [ | same_cs_tac j | intros j0 r E9; left; exact E9].
  all: eapply (shape_point s _ l j); eauto; simpl; try congruence.
  all: try (intros l' k Hne; apply upd2_other; auto).
  all: try (intros l' k n1 v1 Hh;
            destruct (Nat.eqb l' l && Nat.eqb k j && Nat.eqb n1 n0) eqn:Eb; auto;
            bool_hyps; subst;
            match goal with Hn : match hist _ _ _ _ with _ => _ end = true |- _ => rewrite Hh in Hn; discriminate end).
  all: intros e He; rewrite upd2_same in He; inversion He; subst; simpl; rewrite !Nat.eqb_refl; simpl; split; auto; lia.
Qed.

Lemma inv2_xunpublish s j l s' : inv1 b s -> inv2 b s -> do_xunpublish s j l = Some s' -> inv2 b s'.
Proof.
  intros I1 I H. unfold do_xunpublish in H. crunch H; subst; bool_hyps; subst.
  all: apply (inv2_from_shape s _ I); [ | same_cs_tac j | intros j0 r E9; left; exact E9].
  all: eapply (shape_point s _ l j); eauto; simpl; try congruence.
  all: try (intros l' k Hne; apply upd2_other; auto).
  all: intros e0 He; rewrite upd2_same in He; discriminate.
Qed.

Lemma mark_mv s j l s' was :
  mark s j l = Some (s', was) ->
  exists e, mv s l j = Some e /\ was = eest e /\
            mv s' = upd2 (mv s) l j (Some {| einc := einc e; eval := eval e; eest := true |}) /\ edom s' = edom s.
Proof. unfold mark. destruct (mv s l j) as [e|]; intros H; inversion H; subst. exists e. auto. Qed.

Lemma inv2_xmarkest s j l was s' : inv1 b s -> inv2 b s -> do_xmarkest s j l was = Some s' -> inv2 b s'.
Proof.
  intros I1 I H. unfold do_xmarkest in H. crunch H; subst; bool_hyps; subst.
  all: match goal with Hm : mark _ _ _ = Some _ |- _ =>
         destruct (mark_frame _ _ _ _ _ Hm) as (M1&M2&M3&M4&M5&M6&M7&M8&M9&M10&M11&M12&M13&M14);
         destruct (mark_mv _ _ _ _ _ Hm) as (e0 & Me & Mw & Mm & Md) end.
  all: apply (inv2_from_shape s _ I); [ | same_cs_tac j | intros j0 r0 E9; left; simpl in E9; congruence].
  all: eapply (shape_point s _ l j); eauto; simpl; try congruence.
  all: try (rewrite Mm; intros l' k Hne; apply upd2_other; auto).
  all: try (intros l' k n1 v1; rewrite M13; auto).
  all: rewrite Mm, M13; intros e1 He; rewrite upd2_same in He; inversion He; subst; simpl;
       split; [apply (i2_mv_hist b s I _ _ _ Me) | apply (i2_mv_inc b s I _ _ _ Me)].
Qed.

Lemma inv2_xstatus s j c w s' : inv2 b s -> do_xstatus s j c w = Some s' -> inv2 b s'.
Proof.
  intros I H. unfold do_xstatus in H. crunch H; subst.
  all: destruct (i2_cs_log b s I _ _ _ _ _ _ _ _ _ E) as (L1 & L2 & L3 & L4).
  all: apply (inv2_from_shape s _ I); [eapply shape_same; eauto | same_cs_tac j | ].
  all: intros j0 r0 E9; simpl in E9; upd_cases j0 j; [|left; exact E9].
  all: inversion E9; subst; right; simpl; repeat split; auto.
  all: try (intros ? ? ? ? []).
  all: try (intros ? ? []).
Qed.

Ltac quiet I :=
  eapply inv2_quiet; [exact I | simpl; auto .. | ]; simpl; auto; try quiet_cs.

Theorem inv2_step s e s' : inv1 b s -> inv2 b s -> step b s e = Some s' -> inv2 b s'.
Proof.
  intros I1 I H. unfold step in H. destruct (finished s); [discriminate|].
  destruct e.
  - eapply inv2_xclaim; eauto.
  - crunch H; subst; auto.
  - eapply inv2_xbegin; eauto.
  - eapply inv2_xread; eauto.
  - eapply inv2_xbase; eauto.
  - eapply inv2_xben; eauto.
  - eapply inv2_xpublish; eauto.
  - unfold do_xret in H; crunch H; subst; quiet I.
  - eapply inv2_xunpublish; eauto.
  - eapply inv2_xmarkest; eauto.
  - eapply inv2_xstatus; eauto.
  - unfold do_tick in H; crunch H; subst; quiet I.
  - unfold do_lower in H; crunch H; subst; quiet I.
  - unfold do_xend in H; crunch H; subst; quiet I.
  - unfold do_vclaim in H; crunch H; subst; auto; quiet I.
  - crunch H; subst; auto.
  - unfold do_vbegin in H; crunch H; subst; quiet I.
  - unfold do_vcheck in H; crunch H; subst; quiet I.
  - unfold do_vben in H; crunch H; subst; quiet I.
  - unfold do_vscanned in H; crunch H; subst; quiet I.
  - unfold do_vstatus in H; crunch H; subst; quiet I.
  - unfold do_vend in H; crunch H; subst; quiet I.
  - unfold do_finalize in H; crunch H; subst; quiet I.
  - unfold do_finpublish in H; crunch H; subst; quiet I.
  - unfold do_ctake in H; crunch H; subst; quiet I.
  - unfold do_cdone in H; crunch H; subst; quiet I.
    all: pose proof (i1_commit b s I1) as Q;
         match goal with Ht : ctaken _ = Some _ |- _ => rewrite Ht in Q end; bool_hyps; lia.
  - unfold do_cpublish in H; crunch H; subst; quiet I.
  - unfold do_abort in H; crunch H; subst; auto; destruct first; auto; quiet I.
  - unfold do_postexecute in H; crunch H; subst; quiet I.
Qed.

End P.
