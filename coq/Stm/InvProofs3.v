(* Stm/InvProofs3.v - layer 3 (entries of a settled transaction are its write set). *)
From Grevm Require Import Base.Util Stm.Spec Stm.Core Stm.Lemmas Stm.Inv Stm.InvProofs1 Stm.InvProofs2.

Section P.
Variable b : block.

Lemma inv3_from s s' :
  inv3 s ->
  (forall l j e, mv s' l j = Some e -> In l (edom s' j)) ->
  (forall j, settled s' j ->
     (settled s j /\ res s' j = res s j /\ inc s' j = inc s j /\ forall l, mv s' l j = mv s l j) \/
     (exists r ws out, res s' j = Some r /\ rres r = ROk ws out /\ entries_are s' j ws)) ->
  (forall j r, st s' j = Unconfirmed -> res s' j = Some r ->
     (st s j = Unconfirmed /\ res s j = Some r) \/ log_consistent (mv_reads (rlog r)) = true) ->
  inv3 s'.
Proof.
  intros [Ie Is Ic] He Hs Hc. constructor; auto.
  - intros j Hset. destruct (Hs j Hset) as [(A & B & C & D)|H]; auto.
    destruct (Is j A) as (r & ws & out & R1 & R2 & R3). exists r, ws, out. repeat split; auto; try congruence.
    intros l. unfold entries_are in R3. rewrite D, C. apply R3.
  - intros j r Hu Hr. destruct (Hc j r Hu Hr) as [[A B]|H]; eauto.
Qed.

(* events that change neither mv, edom, res, inc, and change status / cs only at j *)
Lemma inv3_local s s' j :
  inv3 s -> mv s' = mv s -> edom s' = edom s -> res s' = res s -> inc s' = inc s ->
  (forall k, k <> j -> st s' k = st s k /\ cs s' k = cs s k) ->
  (settled s' j -> settled s j) ->
  (st s' j = Unconfirmed -> st s j = Unconfirmed \/
     forall r, res s j = Some r -> log_consistent (mv_reads (rlog r)) = true) ->
  inv3 s'.
Proof.
  intros I Hm He Hr Hi Hoth Hset Hun. apply (inv3_from s s' I).
  - intros l k e. rewrite Hm, He. apply (i3_edom s I).
  - intros k Hk. left. rewrite Hr, Hi, Hm. repeat split; auto.
    destruct (Nat.eq_dec k j) as [->|Hne]; auto.
    destruct (Hoth k Hne) as [A B]. unfold settled in *. now rewrite A, B in Hk.
  - intros k r Hu Hres. rewrite Hr in Hres. destruct (Nat.eq_dec k j) as [->|Hne].
    + destruct (Hun Hu) as [A|A]; [left; auto|right; auto].
    + destruct (Hoth k Hne) as [A B]. left. rewrite <- A. auto.
Qed.

Ltac oth j := let k := fresh "k" in let Hk := fresh "Hk" in
  intros k Hk; simpl; rewrite ?upd_other by auto; auto.

Lemma not_settled_exec s j n p log bl pub ph owe w :
  inv1 b s -> cs s j = Some (CExec n p log bl pub ph owe w) -> ph <> XStatusSet -> ~ settled s j.
Proof.
  intros I E Hph Hs. pose proof (i1_cs b s I j) as C. unfold cs_ok in C. rewrite E in C.
  destruct C as (_ & _ & C). unfold settled in Hs. destruct ph; try congruence; rewrite C in Hs; auto.
Qed.

Lemma inv3_xclaim s j stc n s' : inv1 b s -> inv3 s -> do_xclaim b s j stc n = Some s' -> inv3 s'.
Proof.
  intros I1 I H. unfold do_xclaim in H. crunch H; subst; auto; bool_hyps.
  all: match goal with Hs : status_eqb _ _ = true |- _ => apply status_eqb_eq in Hs end.
  all: apply (inv3_from s _ I); simpl.
  all: try (intros l k e; apply (i3_edom s I)).
  all: try (intros k Hk; left; unfold settled in *; simpl in *; upd_cases k j; [discriminate Hk || contradiction | auto]).
  all: try (intros k r Hu Hr; left; upd_cases k j; [discriminate|auto]).
Qed.

Ltac csok I1 E :=
  match type of E with cs ?s ?j = _ =>
    let C := fresh "C" in pose proof (i1_cs b s I1 j) as C; unfold cs_ok in C; rewrite E in C
  end.

(* events inside an execution (before its status is set) that leave mv/edom/res/inc alone *)
Lemma inv3_exec_quiet s s' j n p log bl pub ph owe w c' :
  inv1 b s -> inv3 s -> cs s j = Some (CExec n p log bl pub ph owe w) -> ph <> XStatusSet ->
  mv s' = mv s -> edom s' = edom s -> res s' = res s -> inc s' = inc s -> st s' = st s ->
  cs s' = upd (cs s) j c' -> inv3 s'.
Proof.
  intros I1 I E Hph Hm He Hr Hi Hst Hc.
  csok I1 E. destruct C as (_ & _ & C).
  assert (Hex : st s j = Executing) by (destruct ph; auto; congruence).
  apply (inv3_local s s' j I Hm He Hr Hi).
  - intros k Hk. rewrite Hst, Hc, upd_other by auto. auto.
  - unfold settled. rewrite Hst, Hex. auto.
  - rewrite Hst, Hex. discriminate.
Qed.

Lemma inv3_xbegin s j n s' : inv1 b s -> inv3 s -> do_xbegin b s j n = Some s' -> inv3 s'.
Proof.
  intros I1 I H. unfold do_xbegin in H. crunch H; subst; bool_hyps.
  match goal with Hs : status_eqb _ _ = true |- _ => apply status_eqb_eq in Hs end.
  apply (inv3_local s _ j I); simpl; auto.
  all: try (oth j; fail).
  all: try (unfold settled; simpl; rewrite H; auto; fail).
  all: try (rewrite H; discriminate).
Qed.

Lemma inv3_xread s j l seen est s' : inv1 b s -> inv3 s -> do_xread s j l seen est = Some s' -> inv3 s'.
Proof.
  intros I1 I H. unfold do_xread in H. crunch H; subst.
  all: eapply inv3_exec_quiet; eauto; simpl; auto; try discriminate; try (intro Hx; subst; simpl in *; congruence).
Qed.

Lemma inv3_xbase s j l v s' : inv1 b s -> inv3 s -> do_xbase b s j l v = Some s' -> inv3 s'.
Proof.
  intros I1 I H. unfold do_xbase in H. crunch H; subst.
  all: eapply inv3_exec_quiet; eauto; simpl; auto; try discriminate; try (intro Hx; subst; simpl in *; congruence).
Qed.

Lemma inv3_xben s j o s' : inv1 b s -> inv3 s -> do_xben s j o = Some s' -> inv3 s'.
Proof.
  intros I1 I H. unfold do_xben in H. crunch H; subst.
  all: eapply inv3_exec_quiet; eauto; simpl; auto; try discriminate; try (intro Hx; subst; simpl in *; congruence).
Qed.

Lemma inv3_xret s j n kind bl s' : inv1 b s -> inv3 s -> do_xret s j n kind bl = Some s' -> inv3 s'.
Proof.
  intros I1 I H. unfold do_xret in H. crunch H; subst.
  all: eapply inv3_exec_quiet; eauto; simpl; auto; try discriminate; try (intro Hx; subst; simpl in *; congruence).
Qed.

(* mutations of the entries of a transaction that is not settled (before and after) *)
Lemma inv3_mutate s s' j :
  inv3 s -> ~ settled s j -> ~ settled s' j ->
  (forall l k e, mv s' l k = Some e -> In l (edom s' k)) ->
  (forall l k, k <> j -> mv s' l k = mv s l k) ->
  res s' = res s -> inc s' = inc s -> st s' = st s ->
  (forall k, k <> j -> cs s' k = cs s k) ->
  inv3 s'.
Proof.
  intros I Hn Hn' He Hm Hr Hi Hst Hc. apply (inv3_from s s' I); auto.
  - intros k Hk. left. destruct (Nat.eq_dec k j) as [->|Hne]; [contradiction|].
    rewrite Hr, Hi. repeat split; auto.
    unfold settled in *. now rewrite Hst, (Hc k Hne) in Hk.
  - intros k r Hu Hres. left. rewrite Hst in Hu. rewrite Hr in Hres. auto.
Qed.

Lemma not_settled_st s j x : st s j = x -> (x = Executing \/ x = Conflict \/ x = Initial) -> ~ settled s j.
Proof. intros H [->|[->| ->]] Hs; unfold settled in Hs; rewrite H in Hs; auto. Qed.

Lemma inv3_xpublish s j l n v est s' : inv1 b s -> inv3 s -> do_xpublish s j l n v est = Some s' -> inv3 s'.
Proof.
  intros I1 I H. unfold do_xpublish in H. crunch H; subst.
  all: csok I1 E; destruct C as (_ & _ & C).
  all: assert (Hex : st s j = Executing) by (destruct ph; auto; discriminate).
  all: eapply (inv3_mutate s _ j); eauto; simpl; auto.
  all: try (eapply not_settled_st; eauto; fail).
  all: try (intros l' kk Hne; apply upd2_other_tx; auto; fail).
  all: try (oth j; fail).
  all: intros l' kk e He; destruct (Nat.eq_dec kk j) as [->|Hk];
       [ rewrite upd_same; destruct (Nat.eq_dec l' l) as [->|Hl]; [left; auto|];
         right; rewrite upd2_other in He by congruence; apply (i3_edom s I _ _ _ He)
       | rewrite upd_other by auto; rewrite upd2_other_tx in He by auto; apply (i3_edom s I _ _ _ He) ].
Qed.

Lemma inv3_xunpublish s j l s' : inv1 b s -> inv3 s -> do_xunpublish s j l = Some s' -> inv3 s'.
Proof.
  intros I1 I H. unfold do_xunpublish in H. crunch H; subst.
  all: csok I1 E; destruct C as (_ & _ & C).
  all: eapply (inv3_mutate s _ j); eauto; simpl; auto.
  all: try (eapply not_settled_st; eauto; fail).
  all: try (intros l' kk Hne; apply upd2_other_tx; auto; fail).
  all: try (oth j; fail).
  all: intros l' kk e0 He; destruct (Nat.eq_dec kk j) as [->|Hk];
       [ destruct (Nat.eq_dec l' l) as [->|Hl]; [rewrite upd2_same in He; discriminate|];
         rewrite upd2_other in He by congruence; apply (i3_edom s I _ _ _ He)
       | rewrite upd2_other_tx in He by auto; apply (i3_edom s I _ _ _ He) ].
Qed.

Lemma inv3_xmarkest s j l was s' : inv1 b s -> inv3 s -> do_xmarkest s j l was = Some s' -> inv3 s'.
Proof.
  intros I1 I H. unfold do_xmarkest in H. crunch H; subst.
  all: match goal with Hm : mark _ _ _ = Some _ |- _ =>
         destruct (mark_frame _ _ _ _ _ Hm) as (M1&M2&M3&M4&M5&M6&M7&M8&M9&M10&M11&M12&M13&M14);
         destruct (mark_mv _ _ _ _ _ Hm) as (e0 & Me & Mw & Mm & Md) end.
  all: csok I1 E.
  all: eapply (inv3_mutate s _ j); eauto; simpl; try congruence.
  all: try (rewrite Mm; intros l' kk Hne; apply upd2_other_tx; auto; fail).
  all: try (intros kk Hk; rewrite upd_other by auto; congruence; fail).
  all: try (rewrite Mm, Md; intros l' kk e1 He; destruct (Nat.eq_dec kk j) as [->|Hk];
       [ destruct (Nat.eq_dec l' l) as [->|Hl]; [apply (i3_edom s I _ _ _ Me)|];
         rewrite upd2_other in He by congruence; apply (i3_edom s I _ _ _ He)
       | rewrite upd2_other_tx in He by auto; apply (i3_edom s I _ _ _ He) ]).
  all: try (unfold settled; simpl; rewrite ?M1; destruct C as (_ & _ & C); rewrite C; tauto).
  all: try (destruct C as (_ & _ & _ & C); unfold settled; simpl; rewrite ?M1, C, ?upd_same, ?E;
            intros [Hx|Hx]; discriminate).
Qed.

Lemma entries_match_are s j n ws :
  inv3 s -> n = inc s j -> entries_match s j n ws = true -> entries_are s j ws.
Proof.
  intros I Hn H. unfold entries_match in H. apply andb_prop in H. destruct H as [H1 H2].
  rewrite forallb_forall in H1, H2. intros l.
  destruct (ws_find l ws) as [v|] eqn:Ew.
  - assert (Hin : In l (edom s j)).
    { clear H1. induction ws as [|[l' v'] ws IH]; simpl in Ew; [discriminate|].
      destruct (Nat.eqb_spec l l') as [->|Hne].
      - specialize (H2 (l', v') (or_introl eq_refl)). simpl in H2. apply has_loc_In in H2. exact H2.
      - apply IH; auto. intros x Hx. apply H2. right; auto. }
    specialize (H1 l Hin). rewrite Ew in H1. destruct (mv s l j) as [e|]; [|discriminate].
    bool_hyps. destruct e as [ei ev ee]; simpl in *. subst. reflexivity.
  - destruct (mv s l j) as [e|] eqn:Em; auto.
    pose proof (i3_edom s I _ _ _ Em) as Hin. specialize (H1 l Hin). rewrite Em, Ew in H1. discriminate.
Qed.

Lemma inv3_xstatus s j c w s' : inv1 b s -> inv3 s -> do_xstatus s j c w = Some s' -> inv3 s'.
Proof.
  intros I1 I H. unfold do_xstatus in H. crunch H; subst; bool_hyps; subst.
  all: csok I1 E; destruct C as (C1 & C2 & C3).
  all: apply (inv3_from s _ I); simpl.
  all: try (intros l0 kk e0; apply (i3_edom s I); fail).
  all: try (intros kk r0 Hu Hr; left; upd_cases kk j; [destruct blocked; discriminate Hu || discriminate Hu | auto]; fail).
  all: intros kk Hk; destruct (Nat.eq_dec kk j) as [->|Hne];
       [ | left; unfold settled in *; simpl in *; rewrite ?upd_other in * by auto; auto ].
  (* Ok result *)
  - destruct blocked; simpl in *.
    + unfold settled in Hk; simpl in Hk; rewrite upd_same in Hk. contradiction.
    + right. rewrite upd_same. do 3 eexists. repeat split; try reflexivity.
      match goal with Hm : entries_match _ _ _ _ = true |- _ => apply (entries_match_are s j n ws I C1) in Hm; exact Hm end.
  - unfold settled in Hk; simpl in Hk; rewrite upd_same in Hk. contradiction.
  - unfold settled in Hk; simpl in Hk; rewrite upd_same in Hk. contradiction.
Qed.

Lemma inv3_same s s' :
  inv3 s -> mv s' = mv s -> edom s' = edom s -> res s' = res s -> inc s' = inc s -> st s' = st s -> cs s' = cs s ->
  inv3 s'.
Proof.
  intros I Hm He Hr Hi Hst Hc. apply (inv3_local s s' 0 I Hm He Hr Hi).
  - intros k _. rewrite Hst, Hc. auto.
  - unfold settled. now rewrite Hst, Hc.
  - rewrite Hst. auto.
Qed.

(* local change of status / critical section of j; [P] relates settledness *)
Ltac local3 I j := apply (inv3_local _ _ j I); simpl; auto; try (oth j; fail).

Lemma inv3_tick s j ts s' : inv1 b s -> inv3 s -> do_tick s j ts = Some s' -> inv3 s'.
Proof.
  intros I1 I H. unfold do_tick in H. crunch H; subst.
  all: local3 I j.
  all: unfold settled; simpl; rewrite ?upd_same, ?E; auto.
Qed.

Lemma inv3_lower s j i ts s' : inv1 b s -> inv3 s -> do_lower s j i ts = Some s' -> inv3 s'.
Proof.
  intros I1 I H. unfold do_lower in H. crunch H; subst.
  all: local3 I j.
  all: unfold settled; simpl; rewrite ?upd_same, ?E; auto.
Qed.

Lemma inv3_xend s j kind s' : inv1 b s -> inv3 s -> do_xend b s j kind = Some s' -> inv3 s'.
Proof.
  intros I1 I H. unfold do_xend in H. crunch H; subst; bool_hyps.
  all: csok I1 E; destruct C as (C1 & C2 & C3).
  all: local3 I j.
  all: try (rewrite upd_same; discriminate).
  all: try (match goal with Hs : status_eqb _ _ = true |- _ => apply status_eqb_eq in Hs end).
  all: unfold settled; simpl; rewrite ?upd_same, ?E; auto.
  all: try (rewrite H; auto; fail).
  all: destruct C3 as [C3|C3]; rewrite C3; auto; try discriminate.
Qed.

Lemma inv3_vclaim s j stc n s' : inv1 b s -> inv3 s -> do_vclaim b s j stc n = Some s' -> inv3 s'.
Proof.
  intros I1 I H. unfold do_vclaim in H. crunch H; subst; auto; bool_hyps.
  all: match goal with Hs : status_eqb _ _ = true |- _ => apply status_eqb_eq in Hs end.
  all: local3 I j.
  all: try (rewrite upd_same; discriminate).
  all: unfold settled; simpl; rewrite ?upd_same; rewrite <- ?H0; auto.
  all: match goal with Hs : _ = st _ _ |- _ => rewrite <- Hs; auto end.
Qed.

Lemma inv3_vbegin s j n ts s' : inv1 b s -> inv3 s -> do_vbegin s j n ts = Some s' -> inv3 s'.
Proof.
  intros I1 I H. unfold do_vbegin in H. crunch H; subst; bool_hyps.
  match goal with Hs : status_eqb _ _ = true |- _ => apply status_eqb_eq in Hs end.
  local3 I j.
  all: try (unfold settled; simpl; rewrite H; destruct (cs s j); [discriminate|auto]; fail).
  all: try (rewrite H; discriminate).
Qed.

Lemma inv3_val_scanning s s' j ts sc conf owe c' :
  inv1 b s -> inv3 s -> cs s j = Some (CVal ts sc conf VScanning owe) ->
  mv s' = mv s -> edom s' = edom s -> res s' = res s -> inc s' = inc s -> st s' = st s ->
  cs s' = upd (cs s) j c' -> inv3 s'.
Proof.
  intros I1 I E Hm He Hr Hi Hst Hc. csok I1 E. destruct C as (_ & _ & _ & C).
  apply (inv3_local s s' j I Hm He Hr Hi).
  - intros k Hk. rewrite Hst, Hc, upd_other by auto. auto.
  - unfold settled. rewrite Hst, C, E. auto.
  - rewrite Hst, C. discriminate.
Qed.

Lemma inv3_vcheck s j l ver flip s' : inv1 b s -> inv3 s -> do_vcheck s j l ver flip = Some s' -> inv3 s'.
Proof.
  intros I1 I H. unfold do_vcheck in H. crunch H; subst.
  all: eapply inv3_val_scanning; eauto; simpl; auto.
Qed.

Lemma inv3_vben s j valid s' : inv1 b s -> inv3 s -> do_vben s j valid = Some s' -> inv3 s'.
Proof.
  intros I1 I H. unfold do_vben in H. crunch H; subst.
  all: eapply inv3_val_scanning; eauto; simpl; auto.
Qed.

Lemma inv3_vscanned s j c s' : inv1 b s -> inv3 s -> do_vscanned s j c = Some s' -> inv3 s'.
Proof.
  intros I1 I H. unfold do_vscanned in H. crunch H; subst.
  all: eapply inv3_val_scanning; eauto; simpl; auto.
Qed.

Lemma inv3_vstatus s j c ts s' : inv1 b s -> inv3 s -> do_vstatus s j c ts = Some s' -> inv3 s'.
Proof.
  intros I1 I H. unfold do_vstatus in H. crunch H; subst; bool_hyps; subst.
  all: csok I1 E; destruct C as (C1 & C2 & C3 & C4).
  all: local3 I j.
  all: try (rewrite upd_same; discriminate).
  all: try (unfold settled; simpl; rewrite ?upd_same, ?C4, ?E; auto; fail).
  all: try (intros _; right; intros r0 Hr0;
            match goal with Hc : match res _ _ with _ => _ end = true |- _ =>
              rewrite Hr0 in Hc; apply andb_prop in Hc; destruct Hc as [Hc _]; exact Hc end).
  all: unfold settled; simpl; rewrite ?upd_same; auto; try contradiction; try tauto.
Qed.

Lemma inv3_vend s j s' : inv1 b s -> inv3 s -> do_vend b s j = Some s' -> inv3 s'.
Proof.
  intros I1 I H. unfold do_vend in H. crunch H; subst.
  all: csok I1 E; destruct C as (C1 & C2 & C3 & C4).
  all: local3 I j.
  all: unfold settled; simpl; rewrite ?upd_same, ?E.
  all: destruct C4 as [[-> C4]|[-> [C4 _]]]; rewrite C4; auto.
Qed.

Lemma inv3_finalize s j n eff s' : inv1 b s -> inv3 s -> do_finalize b s j n eff = Some s' -> inv3 s'.
Proof.
  intros I1 I H. unfold do_finalize in H. crunch H; subst; bool_hyps; subst.
  match goal with Hs : status_eqb _ _ = true |- _ => apply status_eqb_eq in Hs end.
  local3 I (fidx s).
  all: try (unfold settled; simpl; rewrite ?upd_same; match goal with Hs : st _ _ = Unconfirmed |- _ => rewrite Hs end; auto; fail).
  all: try (rewrite upd_same; discriminate).
Qed.

Theorem inv3_step s e s' : inv1 b s -> inv3 s -> step b s e = Some s' -> inv3 s'.
Proof.
  intros I1 I H. unfold step in H. destruct (finished s); [discriminate|].
  destruct e.
  - eapply inv3_xclaim; eauto.
  - crunch H; subst; auto.
  - eapply inv3_xbegin; eauto.
  - eapply inv3_xread; eauto.
  - eapply inv3_xbase; eauto.
  - eapply inv3_xben; eauto.
  - eapply inv3_xpublish; eauto.
  - eapply inv3_xret; eauto.
  - eapply inv3_xunpublish; eauto.
  - eapply inv3_xmarkest; eauto.
  - eapply inv3_xstatus; eauto.
  - eapply inv3_tick; eauto.
  - eapply inv3_lower; eauto.
  - eapply inv3_xend; eauto.
  - eapply inv3_vclaim; eauto.
  - crunch H; subst; auto.
  - eapply inv3_vbegin; eauto.
  - eapply inv3_vcheck; eauto.
  - eapply inv3_vben; eauto.
  - eapply inv3_vscanned; eauto.
  - eapply inv3_vstatus; eauto.
  - eapply inv3_vend; eauto.
  - eapply inv3_finalize; eauto.
  - unfold do_finpublish in H; crunch H; subst; eapply inv3_same; eauto.
  - unfold do_ctake in H; crunch H; subst; eapply inv3_same; eauto.
  - unfold do_cdone in H; crunch H; subst; eapply inv3_same; eauto.
  - unfold do_cpublish in H; crunch H; subst; eapply inv3_same; eauto.
  - unfold do_abort in H; crunch H; subst; auto; destruct first; auto; eapply inv3_same; eauto.
  - unfold do_postexecute in H; crunch H; subst; eapply inv3_same; eauto.
Qed.

End P.
