(* Stm/InvProofs4.v - layer 4 (freshness): a certified read still resolves to the version it was
   validated against, unless a validation rewind that covers its transaction is owed by a running
   critical section or has been published with a newer timestamp.  This is the invariant that
   makes "timestamp before scan", "estimate marking before the rewind" and "rewind on an expanded
   write set" sufficient. *)
From Grevm Require Import Base.Util Stm.Spec Stm.Core Stm.Lemmas Stm.Inv Stm.InvProofs1 Stm.InvProofs2 Stm.InvProofs3.

Section P.
Variable b : block.

(* every certificate timestamp is in the past *)
Lemma cert_ts_lt s j c l ver : inv1 b s -> cert_read s j c l ver -> c < clock s.
Proof.
  intros I (r & _ & _ & [[_ ->]|(ts & sc & ph & owe & E & _ & _ & ->)]).
  - apply (i1_unconf b s I).
  - pose proof (i1_cs b s I j) as C. unfold cs_ok in C. rewrite E in C. tauto.
Qed.

Lemma cert_in_range s j c l ver : inv1 b s -> cert_read s j c l ver -> j < ntx b.
Proof.
  intros I (r & _ & _ & [[Hu _]|(ts & sc & ph & owe & E & _)]).
  - destruct (Nat.lt_ge_cases j (ntx b)) as [|Hge]; auto.
    destruct (i1_range b s I j Hge) as [Hi _]. congruence.
  - apply (cs_in_range b s j I). congruence.
Qed.

Lemma inv4_from s s' :
  inv4 s ->
  (forall j c l ver, cert_read s' j c l ver ->
     (cert_read s j c l ver /\
      (resolves s j l ver = true -> resolves s' j l ver = true \/ covered s' j c) /\
      (covered s j c -> covered s' j c))
     \/ resolves s' j l ver = true \/ covered s' j c) ->
  inv4 s'.
Proof.
  intros I H j c l ver Hc. destruct (H j c l ver Hc) as [(A & B & C)|D]; auto.
  destruct (I j c l ver A) as [R|R]; auto.
Qed.

Lemma resolves_ext s s' j l ver :
  (forall k, k < j -> mv s' l k = mv s l k) -> resolves s' j l ver = resolves s j l ver.
Proof. intros H. unfold resolves. rewrite (lb_ext (mv s' l) (mv s l) j H). reflexivity. Qed.

(* events that do not touch mv, do not lower [lower], keep every owed rewind, and add no certificate *)
Lemma inv4_quiet s s' :
  inv4 s -> mv s' = mv s -> (forall i, lower s i <= lower s' i) ->
  (forall k c, owe_covers (cs_owe (cs s k)) c -> owe_covers (cs_owe (cs s' k)) c) ->
  (forall j c l ver, cert_read s' j c l ver -> cert_read s j c l ver) ->
  inv4 s'.
Proof.
  intros I Hm Hl Ho Hc. apply (inv4_from s s' I). intros j c l ver H. left. split; [auto|split].
  - intros R. left. rewrite <- R. apply resolves_ext. intros; now rewrite Hm.
  - intros [(i & Hi & Hlt)|(k & Hk & Hcov)].
    + left. exists i. split; auto. specialize (Hl i). lia.
    + right. exists k. split; auto.
Qed.

Lemma lb_upd_below (f g : nat -> option entry) j k k' e' :
  (forall x, x <> k -> g x = f x) -> lb f j = Some (k', e') -> k < k' -> lb g j = Some (k', e').
Proof.
  intros Hg Hl Hlt. apply lb_some in Hl. destruct Hl as (A & B & C).
  apply lb_intro; auto.
  - rewrite Hg by lia. exact B.
  - intros x Hx. rewrite Hg by lia. apply C. exact Hx.
Qed.

(* a mutation of the entry (l0, k) by the critical section of k *)
Lemma inv4_mutation s s' k l0 :
  inv1 b s -> inv4 s ->
  (forall l j, (l, j) <> (l0, k) -> mv s' l j = mv s l j) ->
  lower s' = lower s -> unconf s' = unconf s -> st s' = st s -> res s' = res s ->
  (forall j, j <> k -> cs s' j = cs s j) ->
  (forall ts sc ph owe, cs s' k = Some (CVal ts sc false ph owe) -> False) ->
  ((cs_owe (cs s' k) = cs_owe (cs s k) /\ exists e, mv s l0 k = Some e /\ eest e = true) \/
   cs_owe (cs s' k) = DirtyAt (clock s)) ->
  inv4 s'.
Proof.
  intros I1 I Hm Hlo Hun Hst Hres Hcs Hnov Howe.
  assert (Hcert : forall j c l ver, cert_read s' j c l ver -> cert_read s j c l ver).
  { intros j c l ver (r & R1 & R2 & R3). exists r. rewrite Hres in R1. split; auto. split; auto.
    rewrite Hst, Hun in R3. destruct R3 as [R3|(ts & sc & ph & owe & E & R4)]; auto.
    right. destruct (Nat.eq_dec j k) as [->|Hne]; [exfalso; eapply Hnov; eauto|].
    rewrite Hcs in E by auto. eauto 10. }
  assert (Hcov : forall j c, c < clock s -> covered s j c -> covered s' j c).
  { intros j c Hc [(i & Hi & Hlt)|(k' & Hk' & Hc')].
    - left. exists i. rewrite Hlo. split; auto.
    - right. exists k'. split; auto. destruct (Nat.eq_dec k' k) as [->|Hne].
      + destruct Howe as [[-> _]| ->]; auto.
      + rewrite Hcs by auto. exact Hc'. }
  apply (inv4_from s s' I). intros j c l ver H.
  pose proof (Hcert _ _ _ _ H) as H0. pose proof (cert_ts_lt s j c l ver I1 H0) as Hc.
  destruct (Nat.le_gt_cases j k) as [Hjk|Hjk].
  { left. split; auto. split; auto. intros R. left. rewrite <- R. apply resolves_ext.
    intros x Hx. apply Hm. intros Heq; inversion Heq; lia. }
  destruct (Nat.eq_dec l l0) as [->|Hl].
  2:{ left. split; auto. split; auto. intros R. left. rewrite <- R. apply resolves_ext.
      intros x Hx. apply Hm. congruence. }
  destruct Howe as [[Heq (e & He & Hest)]|Hd].
  - left. split; auto. split; auto. intros R. left.
    unfold resolves in *. destruct (lb (mv s l0) j) as [[k' e']|] eqn:El.
    + assert (Hk' : k <= k').
      { destruct (Nat.le_gt_cases k k') as [|Hgt]; auto. apply lb_some in El. destruct El as (_ & _ & El).
        rewrite (El k) in He by lia. discriminate. }
      destruct (Nat.eq_dec k' k) as [->|Hne].
      * apply lb_entry in El. rewrite He in El. inversion El; subst.
        destruct ver as [[a c0]|]; [|discriminate]. rewrite Hest in R. simpl in R. rewrite andb_false_r in R. discriminate.
      * rewrite (lb_upd_below (mv s l0) (mv s' l0) j k k' e'); auto; try lia.
        intros x Hx. apply Hm. congruence.
    + apply (lb_none _ _ El) in Hjk. congruence.
  - right. right. right. exists k. split; auto. rewrite Hd. simpl. exact Hc.
Qed.

(* certificates of a state only depend on res, st, unconf and the validation critical sections *)
Lemma cert_same s s' :
  res s' = res s -> st s' = st s -> unconf s' = unconf s ->
  (forall j ts sc ph owe, cs s' j = Some (CVal ts sc false ph owe) -> ph <> VStatusSet ->
     exists owe0, cs s j = Some (CVal ts sc false ph owe0)) ->
  forall j c l ver, cert_read s' j c l ver -> cert_read s j c l ver.
Proof.
  intros Hr Hst Hu Hcs j c l ver (r & R1 & R2 & R3). exists r. rewrite Hr in R1. repeat split; auto.
  rewrite Hst, Hu in R3. destruct R3 as [R3|(ts & sc & ph & owe & E & P & Q & R)]; auto.
  right. destruct (Hcs _ _ _ _ _ E P) as (owe0 & E0). eauto 10.
Qed.

(* the critical section of j changes, but not into / within a certifying validation *)
Ltac cs_upd_tac j :=
  let j0 := fresh "j0" in let E9 := fresh "E9" in
  intros j0 ? ? ? ? E9 ?; simpl in E9;
  destruct (Nat.eq_dec j0 j) as [->|?];
  [ rewrite ?upd_same in E9; try discriminate E9; try (inversion E9; subst; eauto; fail)
  | rewrite ?upd_other in E9 by auto; eauto ].

Ltac owes_upd_tac j :=
  let k0 := fresh "k0" in let c0 := fresh "c0" in let Hc := fresh "Hc" in
  intros k0 c0 Hc; simpl;
  destruct (Nat.eq_dec k0 j) as [->|?];
  [ rewrite ?upd_same; simpl in *; auto | rewrite ?upd_other by auto; auto ].

Lemma inv4_xclaim s j stc n s' : inv1 b s -> inv4 s -> do_xclaim b s j stc n = Some s' -> inv4 s'.
Proof.
  intros I1 I H. unfold do_xclaim in H. crunch H; subst; auto; bool_hyps.
  all: match goal with Hs : status_eqb _ _ = true |- _ => apply status_eqb_eq in Hs end.
  all: apply (inv4_quiet s _ I); simpl; auto.
  all: intros j0 c l ver (r & R1 & R2 & R3); simpl in *; exists r; repeat split; auto.
  all: destruct R3 as [[R3 R4]|R3]; auto.
  all: left; upd_cases j0 j; [discriminate|auto].
Qed.

(* execution events that keep mv, lower, res, st, unconf and the owed rewind of j *)
Lemma inv4_exec_quiet s s' j n p log bl pub ph owe w n' p' log' bl' pub' ph' w' :
  inv4 s -> cs s j = Some (CExec n p log bl pub ph owe w) ->
  cs s' = upd (cs s) j (Some (CExec n' p' log' bl' pub' ph' owe w')) ->
  mv s' = mv s -> lower s' = lower s -> res s' = res s -> st s' = st s -> unconf s' = unconf s ->
  inv4 s'.
Proof.
  intros I E Hc Hm Hl Hr Hst Hu. apply (inv4_quiet s s' I Hm).
  - intros i. rewrite Hl. lia.
  - intros k c. rewrite Hc. destruct (Nat.eq_dec k j) as [->|Hne].
    + rewrite upd_same, E. auto.
    + rewrite upd_other by auto. auto.
  - apply cert_same; auto. intros j0 ts sc ph0 owe0 E0 _. rewrite Hc in E0.
    destruct (Nat.eq_dec j0 j) as [->|Hne]; [rewrite upd_same in E0; discriminate|].
    rewrite upd_other in E0 by auto. eauto.
Qed.

Lemma inv4_xbegin s j n s' : inv4 s -> do_xbegin b s j n = Some s' -> inv4 s'.
Proof.
  intros I H. unfold do_xbegin in H. crunch H; subst.
  apply (inv4_quiet s _ I); simpl; auto.
  - intros k c. upd_cases k j; auto. rewrite E. auto.
  - apply cert_same; auto. cs_upd_tac j.
Qed.

Lemma inv4_xread s j l seen est s' : inv4 s -> do_xread s j l seen est = Some s' -> inv4 s'.
Proof. intros I H. unfold do_xread in H. crunch H; subst; eapply inv4_exec_quiet; eauto; simpl; reflexivity. Qed.

Lemma inv4_xbase s j l v s' : inv4 s -> do_xbase b s j l v = Some s' -> inv4 s'.
Proof. intros I H. unfold do_xbase in H. crunch H; subst; eapply inv4_exec_quiet; eauto; simpl; reflexivity. Qed.

Lemma inv4_xben s j o s' : inv4 s -> do_xben s j o = Some s' -> inv4 s'.
Proof. intros I H. unfold do_xben in H. crunch H; subst; eapply inv4_exec_quiet; eauto; simpl; reflexivity. Qed.

Lemma inv4_xret s j n kind bl s' : inv4 s -> do_xret s j n kind bl = Some s' -> inv4 s'.
Proof. intros I H. unfold do_xret in H. crunch H; subst; eapply inv4_exec_quiet; eauto; simpl; reflexivity. Qed.

Lemma inv4_xpublish s j l n v est s' : inv1 b s -> inv4 s -> do_xpublish s j l n v est = Some s' -> inv4 s'.
Proof.
  intros I1 I H. unfold do_xpublish in H. crunch H; subst.
  all: eapply (inv4_mutation s _ j l I1 I); simpl; auto.
  all: try (intros l' j' Hne; apply upd2_other; auto; fail).
  all: try (intros j' Hne; rewrite upd_other by auto; auto; fail).
  all: try (intros ts sc ph0 owe0 E9; rewrite upd_same in E9; discriminate).
  all: rewrite upd_same, E; simpl.
  all: destruct (mv s l j) as [e0|] eqn:Em; [destruct (eest e0) eqn:Ee|]; simpl; auto.
  all: try (left; split; auto; eauto; fail).
  all: right; destruct owe; reflexivity.
Qed.

Lemma inv4_xunpublish s j l s' : inv1 b s -> inv4 s -> do_xunpublish s j l = Some s' -> inv4 s'.
Proof.
  intros I1 I H. unfold do_xunpublish in H. crunch H; subst.
  all: eapply (inv4_mutation s _ j l I1 I); simpl; auto.
  all: try (intros l' j' Hne; apply upd2_other; auto; fail).
  all: try (intros j' Hne; rewrite upd_other by auto; auto; fail).
  all: try (intros ts sc ph0 owe0 E9; rewrite upd_same in E9; discriminate).
  all: rewrite upd_same, E; simpl.
  all: destruct (eest e) eqn:Ee; [left; split; eauto | right; destruct owe; reflexivity].
Qed.

Lemma inv4_xmarkest s j l was s' : inv1 b s -> inv4 s -> do_xmarkest s j l was = Some s' -> inv4 s'.
Proof.
  intros I1 I H. unfold do_xmarkest in H. crunch H; subst.
  all: match goal with Hm : mark _ _ _ = Some _ |- _ =>
         destruct (mark_frame _ _ _ _ _ Hm) as (M1&M2&M3&M4&M5&M6&M7&M8&M9&M10&M11&M12&M13&M14);
         destruct (mark_mv _ _ _ _ _ Hm) as (e0 & Me & Mw & Mm & Md) end.
  all: eapply (inv4_mutation s _ j l I1 I); simpl; auto.
  all: try (rewrite Mm; intros l' j' Hne; apply upd2_other; auto; fail).
  all: try (intros j' Hne; rewrite upd_other by auto; auto; fail).
  all: try (intros ts0 sc ph0 owe0 E9; rewrite upd_same in E9; discriminate).
  all: rewrite upd_same, E; simpl; subst b0.
  all: destruct (eest e0) eqn:Ee; [left; split; eauto | right; destruct owe; reflexivity].
Qed.

Lemma inv4_xstatus s j c w s' : inv4 s -> do_xstatus s j c w = Some s' -> inv4 s'.
Proof.
  intros I H. unfold do_xstatus in H. crunch H; subst.
  all: apply (inv4_quiet s _ I); simpl; auto.
  all: try (intros k0 c0; upd_cases k0 j; [rewrite E; auto|auto]; fail).
  all: intros j0 c0 l0 ver (r0 & R1 & R2 & R3); simpl in *.
  all: destruct (Nat.eq_dec j0 j) as [->|Hne];
       [ exfalso; rewrite !upd_same in *; destruct R3 as [[R3 _]|(ts & sc & ph & owe0 & E9 & _)];
         [ destruct c; discriminate R3 || discriminate R3 | discriminate E9 ]
       | rewrite !upd_other in * by auto; exists r0; repeat split; auto ].
Qed.

Lemma inv4_tick s j ts s' : inv1 b s -> inv4 s -> do_tick s j ts = Some s' -> inv4 s'.
Proof.
  intros I1 I H. unfold do_tick in H. crunch H; subst; bool_hyps; subst.
  all: pose proof (i1_cs b s I1 j) as C; unfold cs_ok in C; rewrite E in C.
  all: apply (inv4_quiet s _ I); simpl; auto.
  all: try (intros k0 c0; upd_cases k0 j; auto; rewrite E; simpl;
            destruct owe; simpl in *; intros; try contradiction; decompose [and] C; lia).
  all: apply cert_same; auto; cs_upd_tac j.
Qed.

Lemma inv4_lower s j i ts s' : inv1 b s -> inv4 s -> do_lower s j i ts = Some s' -> inv4 s'.
Proof.
  intros I1 I H. unfold do_lower in H. crunch H; subst; bool_hyps; subst.
  all: match goal with Hor : (_ =? _) || (_ =? _) = true |- _ => apply orb_prop in Hor end.
  all: apply (inv4_from s _ I); intros j0 c l ver Hc; left.
  all: (split; [ revert Hc; apply cert_same; simpl; auto; cs_upd_tac j | split ]).
  all: try (intros R; left; rewrite <- R; apply resolves_ext; intros; reflexivity).
  all: intros [(i0 & Hi0 & Hlt)|(k & Hk & Hcov)]; unfold covered; simpl.
  all: try (left; exists i0; split; auto; upd_cases i0 i; lia).
  all: destruct (Nat.eq_dec k j) as [->|Hne];
       [ left; exists i; split;
         [ destruct Hg as [Hg|Hg]; apply Nat.eqb_eq in Hg; lia
         | rewrite upd_same; rewrite E in Hcov; simpl in Hcov; lia ]
       | right; exists k; split; auto; rewrite upd_other by auto; auto ].
Qed.

(* leaving a critical section: nothing may still be owed to a transaction that exists *)
Lemma covered_drop s s' j :
  inv1 b s -> owe_done b j (cs_owe (cs s j)) = true ->
  lower s' = lower s -> (forall k, k <> j -> cs s' k = cs s k) ->
  forall j0 c, j0 < ntx b -> covered s j0 c -> covered s' j0 c.
Proof.
  intros I1 Hd Hl Hc j0 c Hr [(i & Hi & Hlt)|(k & Hk & Hcov)].
  - left. exists i. rewrite Hl. auto.
  - right. exists k. split; auto. destruct (Nat.eq_dec k j) as [->|Hne].
    + unfold owe_done in Hd. destruct (cs_owe (cs s j)); simpl in Hcov; try contradiction;
        apply Nat.leb_le in Hd; lia.
    + rewrite Hc by auto. auto.
Qed.

Lemma inv4_leave s s' j :
  inv1 b s -> inv4 s -> owe_done b j (cs_owe (cs s j)) = true ->
  mv s' = mv s -> lower s' = lower s -> (forall k, k <> j -> cs s' k = cs s k) ->
  (forall j0 c l ver, cert_read s' j0 c l ver -> cert_read s j0 c l ver) ->
  inv4 s'.
Proof.
  intros I1 I Hd Hm Hl Hc Hcert. apply (inv4_from s s' I). intros j0 c l ver H. left.
  pose proof (Hcert _ _ _ _ H) as H0. split; auto. split.
  - intros R. left. rewrite <- R. apply resolves_ext. intros; now rewrite Hm.
  - eapply covered_drop; eauto. eapply cert_in_range; eauto.
Qed.

Lemma inv4_xend s j kind s' : inv1 b s -> inv4 s -> do_xend b s j kind = Some s' -> inv4 s'.
Proof.
  intros I1 I H. unfold do_xend in H. crunch H; subst; bool_hyps.
  all: eapply (inv4_leave s _ j I1 I); simpl; auto.
  all: try (rewrite E; simpl; auto; fail).
  all: try (intros k Hk; rewrite upd_other by auto; auto; fail).
  all: intros j0 c l ver (r0 & R1 & R2 & R3); simpl in *; exists r0; repeat split; auto.
  all: destruct R3 as [[R3 R4]|(ts & sc & ph & owe0 & E9 & R5)].
  all: try (right; upd_cases j0 j; [discriminate E9 | eauto 10]).
  all: left; split; auto; upd_cases j0 j; auto; discriminate R3.
Qed.

Lemma inv4_vclaim s j stc n s' : inv4 s -> do_vclaim b s j stc n = Some s' -> inv4 s'.
Proof.
  intros I H. unfold do_vclaim in H. crunch H; subst; auto; bool_hyps.
  all: apply (inv4_quiet s _ I); simpl; auto.
  all: intros j0 c l ver (r & R1 & R2 & R3); simpl in *; exists r; repeat split; auto.
  all: destruct R3 as [[R3 R4]|R3]; auto.
  all: left; upd_cases j0 j; [discriminate|auto].
Qed.

Lemma inv4_vbegin s j n ts s' : inv4 s -> do_vbegin s j n ts = Some s' -> inv4 s'.
Proof.
  intros I H. unfold do_vbegin in H. crunch H; subst; bool_hyps.
  apply (inv4_quiet s _ I); simpl; auto.
  - intros k c. upd_cases k j; auto. destruct (cs s j); [discriminate|auto].
  - intros j0 c l ver (r & R1 & R2 & R3); simpl in *; exists r; repeat split; auto.
    destruct R3 as [R3|(ts0 & sc & ph & owe0 & E9 & P & Q & R)]; auto.
    right. upd_cases j0 j; [|eauto 10]. inversion E9; subst. destruct Q.
Qed.

Lemma lookup_ver_in l rs ver : lookup_ver l rs = Some ver -> In l (map fst rs).
Proof.
  revert ver; induction rs as [|[l' v] rs IH]; intros ver; simpl; [discriminate|].
  destruct (lookup_ver l rs) eqn:E.
  - intros _. right. eapply IH. reflexivity.
  - destruct (Nat.eqb_spec l l'); [subst; auto|discriminate].
Qed.

Lemma inv4_val_upd s s' j ts sc conf ph owe sc' conf' ph' :
  inv4 s -> cs s j = Some (CVal ts sc conf ph owe) ->
  cs s' = upd (cs s) j (Some (CVal ts sc' conf' ph' owe)) ->
  mv s' = mv s -> lower s' = lower s -> res s' = res s -> st s' = st s -> unconf s' = unconf s ->
  (forall c l ver, cert_read s' j c l ver -> cert_read s j c l ver \/ resolves s j l ver = true) ->
  inv4 s'.
Proof.
  intros I E Hc Hm Hl Hr Hst Hu Hj.
  assert (Hres : forall j0 l ver, resolves s' j0 l ver = resolves s j0 l ver).
  { intros. apply resolves_ext. intros; now rewrite Hm. }
  assert (Hcov : forall j0 c, covered s j0 c -> covered s' j0 c).
  { intros j0 c [(i & Hi & Hlt)|(k & Hk & Hcv)].
    - left. exists i. rewrite Hl. auto.
    - right. exists k. split; auto. rewrite Hc. destruct (Nat.eq_dec k j) as [->|Hne].
      + rewrite upd_same. rewrite E in Hcv. exact Hcv.
      + rewrite upd_other by auto. exact Hcv. }
  apply (inv4_from s s' I). intros j0 c l ver H.
  destruct (Nat.eq_dec j0 j) as [->|Hne].
  - destruct (Hj c l ver H) as [H0|H0].
    + left. split; auto. split; auto. intros R. left. now rewrite Hres.
    + right. left. now rewrite Hres.
  - left. split; [|split; auto].
    + destruct H as (r & R1 & R2 & R3). exists r. rewrite Hr in R1. rewrite Hst, Hu in R3. repeat split; auto.
      destruct R3 as [R3|(ts0 & sc0 & ph0 & owe0 & E0 & R4)]; auto. right.
      rewrite Hc, upd_other in E0 by auto. eauto 10.
    + intros R. left. now rewrite Hres.
Qed.

Lemma inv4_vcheck s j l ver flip s' : inv4 s -> do_vcheck s j l ver flip = Some s' -> inv4 s'.
Proof.
  intros I H. unfold do_vcheck in H. crunch H; subst; bool_hyps.
  eapply (inv4_val_upd s _ j); eauto; simpl; try reflexivity.
  intros c l0 ver0 (r0 & R1 & R2 & R3); simpl in *.
  rewrite E2 in R1. inversion R1; subst r0.
  destruct R3 as [R3|(ts1 & sc & ph & owe0 & E9 & P & Q & R)].
  - left. exists r. repeat split; auto.
  - rewrite upd_same in E9. injection E9 as Hts Hsc Hcf Hph Howe.
    apply orb_false_elim in Hcf. destruct Hcf as [Hf1 Hf2]. apply negb_false_iff in Hf2. subst.
    destruct Q as [<-|Q].
    + right. rewrite E3 in R2. inversion R2; subst. exact Hf2.
    + left. exists r. repeat split; auto. right. subst. do 4 eexists. split; [exact E|]. repeat split; auto; discriminate.
Qed.

Lemma inv4_vben s j valid s' : inv4 s -> do_vben s j valid = Some s' -> inv4 s'.
Proof.
  intros I H. unfold do_vben in H. crunch H; subst.
  eapply (inv4_val_upd s _ j); eauto; simpl; try reflexivity.
  intros c l0 ver0 (r0 & R1 & R2 & R3); simpl in *. left. exists r0. repeat split; auto.
  destruct R3 as [R3|(ts1 & sc & ph & owe0 & E9 & P & Q & R)]; auto. right.
  rewrite upd_same in E9. injection E9 as Hts Hsc Hcf Hph Howe.
  apply orb_false_elim in Hcf. destruct Hcf as [Hf1 Hf2].
  subst. do 4 eexists. split; [exact E|]. repeat split; auto.
Qed.

Lemma inv4_vscanned s j c s' : inv4 s -> do_vscanned s j c = Some s' -> inv4 s'.
Proof.
  intros I H. unfold do_vscanned in H. crunch H; subst.
  eapply (inv4_val_upd s _ j); eauto; simpl; try reflexivity.
  intros c0 l0 ver0 (r0 & R1 & R2 & R3); simpl in *. left. exists r0. repeat split; auto.
  destruct R3 as [R3|(ts1 & sc & ph & owe0 & E9 & P & Q & R)]; auto. right.
  rewrite upd_same in E9. inversion E9; subst.
  do 4 eexists. split; [exact E|]. repeat split; auto; discriminate.
Qed.

Lemma inv4_vstatus s j c ts s' : inv1 b s -> inv4 s -> do_vstatus s j c ts = Some s' -> inv4 s'.
Proof.
  intros I1 I H. unfold do_vstatus in H. crunch H; subst; bool_hyps; subst.
  all: pose proof (i1_cs b s I1 j) as C; unfold cs_ok in C; rewrite E in C; destruct C as (C1 & C2 & C3 & C4).
  (* conflict: no certificate for j afterwards *)
  - apply (inv4_quiet s _ I); simpl; auto.
    + intros k c0. upd_cases k j; auto. rewrite E; auto.
    + intros j0 c0 l ver (r0 & R1 & R2 & R3); simpl in *. exists r0. repeat split; auto.
      destruct (Nat.eq_dec j0 j) as [->|Hne].
      * rewrite !upd_same in R3. destruct R3 as [[R3 _]|(ts1 & sc & ph & owe0 & E9 & _)]; discriminate.
      * rewrite !upd_other in R3 by auto. exact R3.
  (* success: the certificates of the scan become those of the Unconfirmed status *)
  - assert (Hmax : Nat.max (unconf s j) ts = ts) by lia.
    apply (inv4_from s _ I). intros j0 c0 l ver (r0 & R1 & R2 & R3); simpl in *. left.
    assert (Hcert : cert_read s j0 c0 l ver).
    { exists r0. repeat split; auto. destruct (Nat.eq_dec j0 j) as [->|Hne].
      - rewrite !upd_same in R3. right. destruct R3 as [[_ ->]|(ts1 & sc & ph & owe0 & E9 & P & _)].
        + rewrite Hmax. exists ts, scanned, VScanDone, owe. repeat split; auto; try discriminate.
          match goal with Hc : match res _ _ with _ => _ end = true |- _ =>
            rewrite R1 in Hc; apply andb_prop in Hc; destruct Hc as [_ Hf] end.
          rewrite forallb_forall in Hf.
          apply lookup_ver_in in R2. apply in_map_iff in R2. destruct R2 as (x & Hx1 & Hx2).
          specialize (Hf x Hx2). rewrite Hx1 in Hf. apply has_loc_In. exact Hf.
        + inversion E9; subst. congruence.
      - rewrite !upd_other in R3 by auto. exact R3. }
    split; auto. split.
    + intros R. left. rewrite <- R. apply resolves_ext. intros; reflexivity.
    + intros [(i & Hi & Hlt)|(k & Hk & Hcv)]; [left; eauto|].
      right. exists k. split; auto. simpl. upd_cases k j; auto. rewrite E in Hcv. exact Hcv.
Qed.

Lemma inv4_vend s j s' : inv1 b s -> inv4 s -> do_vend b s j = Some s' -> inv4 s'.
Proof.
  intros I1 I H. unfold do_vend in H. crunch H; subst.
  eapply (inv4_leave s _ j I1 I); simpl; auto.
  - rewrite E; simpl; auto.
  - intros k Hk; rewrite upd_other by auto; auto.
  - intros j0 c l ver (r0 & R1 & R2 & R3); simpl in *; exists r0; repeat split; auto.
    destruct R3 as [R3|(ts1 & sc & ph & owe0 & E9 & R5)]; auto.
    right. upd_cases j0 j; [discriminate E9 | eauto 10].
Qed.

Lemma inv4_finalize s j n eff s' : inv4 s -> do_finalize b s j n eff = Some s' -> inv4 s'.
Proof.
  intros I H. unfold do_finalize in H. crunch H; subst; bool_hyps; subst.
  apply (inv4_quiet s _ I); simpl; auto.
  intros j0 c l ver (r0 & R1 & R2 & R3); simpl in *; exists r0; repeat split; auto.
  destruct R3 as [[R3 R4]|R3]; auto. left. upd_cases j0 (fidx s); [discriminate|auto].
Qed.

Lemma inv4_same s s' :
  inv4 s -> mv s' = mv s -> lower s' = lower s -> cs s' = cs s -> res s' = res s -> st s' = st s ->
  unconf s' = unconf s -> inv4 s'.
Proof.
  intros I Hm Hl Hc Hr Hst Hu. apply (inv4_quiet s s' I Hm).
  - intros; rewrite Hl; lia.
  - intros k c. now rewrite Hc.
  - apply cert_same; auto. intros j ts sc ph owe E _. rewrite Hc in E. eauto.
Qed.

Theorem inv4_step s e s' : inv1 b s -> inv4 s -> step b s e = Some s' -> inv4 s'.
Proof.
  intros I1 I H. unfold step in H. destruct (finished s); [discriminate|].
  destruct e.
  - eapply inv4_xclaim; eauto.
  - crunch H; subst; auto.
  - eapply inv4_xbegin; eauto.
  - eapply inv4_xread; eauto.
  - eapply inv4_xbase; eauto.
  - eapply inv4_xben; eauto.
  - eapply inv4_xpublish; eauto.
  - eapply inv4_xret; eauto.
  - eapply inv4_xunpublish; eauto.
  - eapply inv4_xmarkest; eauto.
  - eapply inv4_xstatus; eauto.
  - eapply inv4_tick; eauto.
  - eapply inv4_lower; eauto.
  - eapply inv4_xend; eauto.
  - eapply inv4_vclaim; eauto.
  - crunch H; subst; auto.
  - eapply inv4_vbegin; eauto.
  - eapply inv4_vcheck; eauto.
  - eapply inv4_vben; eauto.
  - eapply inv4_vscanned; eauto.
  - eapply inv4_vstatus; eauto.
  - eapply inv4_vend; eauto.
  - eapply inv4_finalize; eauto.
  - unfold do_finpublish in H; crunch H; subst; eapply inv4_same; eauto.
  - unfold do_ctake in H; crunch H; subst; eapply inv4_same; eauto.
  - unfold do_cdone in H; crunch H; subst; eapply inv4_same; eauto.
  - unfold do_cpublish in H; crunch H; subst; eapply inv4_same; eauto.
  - unfold do_abort in H; crunch H; subst; auto; destruct first; auto; eapply inv4_same; eauto.
  - unfold do_postexecute in H; crunch H; subst; eapply inv4_same; eauto.
Qed.

End P.
