(* Stm/InvProofs5.v - layer 5: a transaction becomes final only if every read of its last
   incarnation resolves, now, to exactly the (final) entries of its predecessors, and its own
   entries are exactly its write set.  Established at [Finalize] from layers 1-4, then frozen. *)
From Grevm Require Import Base.Util Stm.Spec Stm.Core Stm.Lemmas Stm.Inv
  Stm.InvProofs1 Stm.InvProofs2 Stm.InvProofs3 Stm.InvProofs4.

Section P.
Variable b : block.

Definition ver_of (seen : option (nat * nat * val)) : option (nat * nat) :=
  match seen with Some (k, n, _) => Some (k, n) | None => None end.

Lemma mv_reads_app a c : mv_reads (a ++ c) = mv_reads a ++ mv_reads c.
Proof. unfold mv_reads. apply flat_map_app. Qed.

Lemma mv_reads_in l seen log : In (RMv l seen) log -> In (l, ver_of seen) (mv_reads log).
Proof.
  intros H. unfold mv_reads. apply in_flat_map. exists (RMv l seen). split; auto.
  destruct seen as [[[k n] v]|]; simpl; auto.
Qed.

Lemma ver_eqb_eq a c : ver_eqb a c = true -> a = c.
Proof.
  destruct a as [[k n]|], c as [[k' n']|]; simpl; intros H; try discriminate; auto.
  bool_hyps. subst. reflexivity.
Qed.

Lemma consistent_lookup rs l v :
  log_consistent rs = true -> In (l, v) rs -> lookup_ver l rs = Some v.
Proof.
  induction rs as [|[l0 v0] rs IH]; simpl; intros Hc Hin; [contradiction|].
  destruct Hin as [Heq|Hin].
  - inversion Heq; subst. destruct (lookup_ver l rs) as [v'|] eqn:E.
    + apply andb_prop in Hc. destruct Hc as [Hv _]. apply ver_eqb_eq in Hv. now subst.
    + now rewrite Nat.eqb_refl.
  - assert (Hc' : log_consistent rs = true).
    { destruct (lookup_ver l0 rs); auto. apply andb_prop in Hc. tauto. }
    rewrite (IH Hc' Hin). reflexivity.
Qed.

Lemma lookup_in rs l v : lookup_ver l rs = Some v -> In (l, v) rs.
Proof.
  revert v; induction rs as [|[l0 v0] rs IH]; simpl; intros v; [discriminate|].
  destruct (lookup_ver l rs) as [v'|] eqn:E.
  - intros H; inversion H; subst. right. apply IH. reflexivity.
  - destruct (Nat.eqb_spec l l0); [|discriminate]. intros H; inversion H; subst. left; reflexivity.
Qed.

Lemma lb_none_le f j c : lb f j = None -> c <= j -> lb f c = None.
Proof. intros H Hc. apply lb_none_intro. intros k Hk. apply (lb_none _ _ H). lia. Qed.

(* nothing covers a transaction that passes the finality guard *)
Lemma not_covered_at_finality s j :
  inv1 b s -> j = fidx s -> Nat.max (carried s) (lower s j) < unconf s j -> ~ covered s j (unconf s j).
Proof.
  intros I1 Hj Hg [(i & Hi & Hlt)|(k & Hk & Hcov)].
  - destruct (Nat.eq_dec i j) as [->|Hne]; [lia|].
    assert (Hif : i < fidx s) by lia. pose proof (i1_carried b s I1 i Hif). lia.
  - assert (Hf : st s k = Final) by (apply (i1_final b s I1); lia).
    destruct (cs s k) eqn:E.
    + exfalso. apply (cs_not_final b s k I1); congruence.
    + simpl in Hcov. exact Hcov.
Qed.

Lemma finalize_establishes s j :
  inv1 b s -> inv2 b s -> inv3 s -> inv4 s ->
  j = fidx s -> st s j = Unconfirmed -> Nat.max (carried s) (lower s j) < unconf s j ->
  final_ok b s j.
Proof.
  intros I1 I2 I3 I4 Hj Hst Hg.
  assert (Hset : settled s j) by (unfold settled; now rewrite Hst).
  destruct (i3_settled s I3 j Hset) as (r & ws & out & Hr & Hres & Hent).
  exists r, ws, out. repeat split; auto.
  pose proof (i3_consistent s I3 j r Hst Hr) as Hcons.
  destruct (i2_res_log b s I2 j r Hr) as (Lh & Lb & Lm & _).
  pose proof (not_covered_at_finality s j I1 Hj Hg) as Hnc.
  assert (Hresolve : forall l ver, In (l, ver) (mv_reads (rlog r)) -> resolves s j l ver = true).
  { intros l ver Hin. pose proof (consistent_lookup _ _ _ Hcons Hin) as Hl.
    assert (Hc : cert_read s j (unconf s j) l ver) by (exists r; repeat split; auto).
    destruct (I4 _ _ _ _ Hc) as [R|R]; [exact R|contradiction]. }
  intros x Hx. destruct x as [l seen|l v|o]; simpl; auto.
  - pose proof (Hresolve l (ver_of seen) (mv_reads_in _ _ _ Hx)) as R. unfold resolves in R.
    destruct seen as [[[k n] v]|]; simpl in R.
    + destruct (lb (mv s l) j) as [[k' e]|] eqn:El; [|discriminate]. bool_hyps. subst.
      exists e. repeat split; auto.
      pose proof (Lh l _ (einc e) v Hx) as Hh.
      pose proof (i2_mv_hist b s I2 l _ e (lb_entry _ _ _ _ El)) as Hh'. congruence.
    + destruct (lb (mv s l) j); [destruct p; discriminate|reflexivity].
  - destruct (Lm l v Hx) as (p1 & p2 & Esplit & Hl1 & Hl2).
    assert (Hsub : forall y, In y (mv_reads p1) -> In y (mv_reads (rlog r))).
    { intros y Hy. rewrite Esplit, mv_reads_app. apply in_or_app. left; exact Hy. }
    assert (Hlb : lb (mv s l) j = None).
    { pose proof (Hresolve l None (Hsub _ (lookup_in _ _ _ Hl1))) as R. unfold resolves in R.
      destruct (lb (mv s l) j); [destruct p; discriminate|reflexivity]. }
    split; auto. destruct (Lb l v Hx) as [|Hd]; auto. exfalso.
    destruct (i1_commit b s I1) as (Hc1 & Hc2 & _).
    assert (Hcj : cidx s <= j) by lia.
    unfold clean_base in Hd. rewrite (lb_none_le _ _ _ Hlb Hcj) in Hd.
    destruct (marker b l) as [m|]; [|discriminate].
    assert (Hlbm : lb (mv s m) j = None).
    { pose proof (Hresolve m None (Hsub _ (lookup_in _ _ _ Hl2))) as R. unfold resolves in R.
      destruct (lb (mv s m) j); [destruct p; discriminate|reflexivity]. }
    rewrite (lb_none_le _ _ _ Hlbm Hcj) in Hd. discriminate.
Qed.

Lemma final_ok_ext s s' j :
  (forall l k, k <= j -> mv s' l k = mv s l k) -> res s' j = res s j -> inc s' j = inc s j ->
  final_ok b s j -> final_ok b s' j.
Proof.
  intros Hm Hr Hi (r & ws & out & R1 & R2 & R3 & R4). exists r, ws, out. repeat split; auto; try congruence.
  - intros l. rewrite Hm, Hi by lia. apply R3.
  - intros x Hx. specialize (R4 x Hx).
    assert (Hlb : forall l, lb (mv s' l) j = lb (mv s l) j).
    { intros l. apply lb_ext. intros k Hk. apply Hm. lia. }
    destruct x as [l [[[k n] v]|]|l v|o]; simpl in *; rewrite ?Hlb; auto.
Qed.

Lemma inv5_frozen s s' :
  inv5 b s -> fidx s' = fidx s ->
  (forall l k, k < fidx s -> mv s' l k = mv s l k) ->
  (forall k, k < fidx s -> res s' k = res s k /\ inc s' k = inc s k) ->
  inv5 b s'.
Proof.
  intros I Hf Hm Hr j Hj. rewrite Hf in Hj. destruct (Hr j Hj) as [A B].
  apply (final_ok_ext s s' j); auto. intros l k Hk. apply Hm. lia.
Qed.

Lemma ge_fidx_of_cs s j : inv1 b s -> cs s j <> None -> fidx s <= j.
Proof.
  intros I H. destruct (Nat.lt_ge_cases j (fidx s)) as [Hlt|]; auto.
  exfalso. apply (cs_not_final b s j I H). apply (i1_final b s I). exact Hlt.
Qed.

Lemma ge_fidx_of_st s j : inv1 b s -> st s j <> Final -> fidx s <= j.
Proof.
  intros I H. destruct (Nat.lt_ge_cases j (fidx s)) as [Hlt|]; auto.
  exfalso. apply H. apply (i1_final b s I). exact Hlt.
Qed.

Ltac frozen_tac I1 I :=
  apply (inv5_frozen _ _ I); simpl; auto.

Theorem inv5_step s e s' :
  inv1 b s -> inv2 b s -> inv3 s -> inv4 s -> inv5 b s -> step b s e = Some s' -> inv5 b s'.
Proof.
  intros I1 I2 I3 I4 I H. unfold step in H. destruct (finished s); [discriminate|].
  destruct e.
  - (* XClaim *) unfold do_xclaim in H. crunch H; subst; auto; bool_hyps.
    all: match goal with Hs : status_eqb _ _ = true |- _ => apply status_eqb_eq in Hs end.
    all: frozen_tac I1 I.
    all: intros k Hk; split; auto; rewrite upd_other; auto.
    all: assert (fidx s <= j) by (apply ge_fidx_of_st; auto; congruence); lia.
  - crunch H; subst; auto.
  - unfold do_xbegin in H. crunch H; subst. frozen_tac I1 I.
  - unfold do_xread in H. crunch H; subst; frozen_tac I1 I.
  - unfold do_xbase in H. crunch H; subst; frozen_tac I1 I.
  - unfold do_xben in H. crunch H; subst; frozen_tac I1 I.
  - (* XPublish *) unfold do_xpublish in H. crunch H; subst. frozen_tac I1 I.
    intros l' k Hk. apply upd2_other_tx.
    assert (fidx s <= j) by (apply ge_fidx_of_cs; auto; congruence). lia.
  - unfold do_xret in H. crunch H; subst; frozen_tac I1 I.
  - (* XUnpublish *) unfold do_xunpublish in H. crunch H; subst. frozen_tac I1 I.
    intros l' k Hk. apply upd2_other_tx.
    assert (fidx s <= j) by (apply ge_fidx_of_cs; auto; congruence). lia.
  - (* XMarkEst *) unfold do_xmarkest in H. crunch H; subst.
    all: match goal with Hm : mark _ _ _ = Some _ |- _ =>
           destruct (mark_frame _ _ _ _ _ Hm) as (M1&M2&M3&M4&M5&M6&M7&M8&M9&M10&M11&M12&M13&M14);
           destruct (mark_mv _ _ _ _ _ Hm) as (e0 & Me & Mw & Mm & Md) end.
    all: frozen_tac I1 I; try (intros k Hk; rewrite M12, M2; auto).
    all: rewrite Mm; intros l' k Hk; apply upd2_other_tx.
    all: assert (fidx s <= j) by (apply ge_fidx_of_cs; auto; congruence); lia.
  - (* XStatus *) unfold do_xstatus in H. crunch H; subst.
    all: frozen_tac I1 I.
    all: intros k Hk; split; auto; rewrite upd_other; auto.
    all: assert (fidx s <= j) by (apply ge_fidx_of_cs; auto; congruence); lia.
  - unfold do_tick in H. crunch H; subst; frozen_tac I1 I.
  - unfold do_lower in H. crunch H; subst; frozen_tac I1 I.
  - unfold do_xend in H. crunch H; subst; frozen_tac I1 I.
  - unfold do_vclaim in H. crunch H; subst; auto; frozen_tac I1 I.
  - crunch H; subst; auto.
  - unfold do_vbegin in H. crunch H; subst; frozen_tac I1 I.
  - unfold do_vcheck in H. crunch H; subst; frozen_tac I1 I.
  - unfold do_vben in H. crunch H; subst; frozen_tac I1 I.
  - unfold do_vscanned in H. crunch H; subst; frozen_tac I1 I.
  - unfold do_vstatus in H. crunch H; subst; frozen_tac I1 I.
  - unfold do_vend in H. crunch H; subst; frozen_tac I1 I.
  - (* Finalize *) unfold do_finalize in H. crunch H; subst; bool_hyps; subst.
    match goal with Hs : status_eqb _ _ = true |- _ => apply status_eqb_eq in Hs end.
    intros j Hj. simpl in Hj.
    assert (Hok : final_ok b s j).
    { destruct (Nat.eq_dec j (fidx s)) as [->|Hne].
      - apply finalize_establishes; auto.
      - apply I. lia. }
    apply (final_ok_ext s _ j); auto.
  - unfold do_finpublish in H. crunch H; subst; frozen_tac I1 I.
  - unfold do_ctake in H. crunch H; subst; frozen_tac I1 I.
  - unfold do_cdone in H. crunch H; subst; frozen_tac I1 I.
  - unfold do_cpublish in H. crunch H; subst; frozen_tac I1 I.
  - unfold do_abort in H. crunch H; subst; auto. destruct first; auto; frozen_tac I1 I.
  - unfold do_postexecute in H. crunch H; subst; frozen_tac I1 I.
Qed.

End P.
