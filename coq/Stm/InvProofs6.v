(* Stm/InvProofs6.v - layer 6: the committed prefix (outcomes and committed entries) is exactly
   the in-order execution of the first [cidx] transactions. *)
From Grevm Require Import Base.Util Stm.Spec Stm.Core Stm.Lemmas Stm.Inv
  Stm.InvProofs1 Stm.InvProofs2 Stm.InvProofs3 Stm.InvProofs4 Stm.InvProofs5.

Section P.
Variable b : block.

Lemma seq_from_snoc s0 i ts t os Sg :
  seq_from b s0 i ts = (os, Sg, None) ->
  seq_from b s0 i (ts ++ [t]) =
    match seq_tx b Sg (i + length ts) t with
    | ROk ws out => (os ++ [OExec out], vwrite Sg (i + length ts) ws, None)
    | RInvalid r => (os ++ [OSkip r], Sg, None)
    | RFatal e => (os, Sg, Some (i + length ts, e))
    end.
Proof.
  revert s0 i os Sg. induction ts as [|t0 ts IH]; intros s0 i os Sg H; simpl in *.
  - inversion H; subst. rewrite Nat.add_0_r. destruct (seq_tx b Sg i t); reflexivity.
  - destruct (seq_tx b s0 i t0) as [ws out|r|e] eqn:E0.
    + destruct (seq_from b (vwrite s0 i ws) (S i) ts) as [[os1 S1] e1] eqn:E1.
      inversion H; subst. rewrite (IH _ _ _ _ E1).
      replace (S i + length ts) with (i + S (length ts)) by lia.
      destruct (seq_tx b Sg (i + S (length ts)) t); reflexivity.
    + destruct (seq_from b s0 (S i) ts) as [[os1 S1] e1] eqn:E1.
      inversion H; subst. rewrite (IH _ _ _ _ E1).
      replace (S i + length ts) with (i + S (length ts)) by lia.
      destruct (seq_tx b Sg (i + S (length ts)) t); reflexivity.
    + discriminate.
Qed.

Lemma firstn_S_nth {A} (l : list A) j x : nth_opt l j = Some x -> firstn (S j) l = firstn j l ++ [x].
Proof.
  revert j; induction l as [|y l IH]; intros [|j] H; simpl in *; try discriminate.
  - inversion H; reflexivity.
  - rewrite (IH j H). reflexivity.
Qed.

Lemma firstn_length_le {A} (l : list A) j : j <= length l -> length (firstn j l) = j.
Proof. intros H. rewrite firstn_length. lia. Qed.

(* the multi-version store seen as an in-order store *)
Lemma vlatest_mvstore s c l j :
  j <= c -> vlatest (mvstore s c l) j = match lb (mv s l) j with Some (k, e) => Some (k, eval e) | None => None end.
Proof.
  intros Hj. rewrite <- vlatest_lb. apply vlatest_ext. intros k Hk. unfold mvstore.
  destruct (Nat.ltb_spec k c); [reflexivity|lia].
Qed.

Definition rec_obs_ok (Sg : vstore) (j : nat) (x : readrec) : Prop :=
  match x with
  | RMv l seen => vlatest (Sg l) j = obs_of seen
  | RB l v => v = pre b l
  | RBen o => o = Some (ben_obs b j)
  end.

Lemma run_follows Sg j log : forall p p',
  follows p log = Some p' -> (forall x, In x log -> rec_obs_ok Sg j x) -> run b Sg j p = run b Sg j p'.
Proof.
  induction log as [|x log IH]; intros p p' H Hok; simpl in H.
  - inversion H; reflexivity.
  - assert (Hx : rec_obs_ok Sg j x) by (apply Hok; left; reflexivity).
    assert (Hrest : forall y, In y log -> rec_obs_ok Sg j y) by (intros; apply Hok; right; auto).
    destruct p as [l k|l k|k|r]; destruct x as [l' seen|l' v|o]; try discriminate.
    + destruct (Nat.eqb_spec l l'); [subst|discriminate]. simpl in Hx. simpl. rewrite Hx. apply IH; auto.
    + destruct (Nat.eqb_spec l l'); [subst|discriminate]. simpl in Hx. simpl. rewrite <- Hx. apply IH; auto.
    + simpl in Hx. simpl. rewrite <- Hx. apply IH; auto.
Qed.

Lemma rec_exact_obs s c j x :
  j <= c -> rec_exact b s j x ->
  (match x with RBen o => o = Some (ben_obs b j) | _ => True end) ->
  rec_obs_ok (mvstore s c) j x.
Proof.
  intros Hj Hx Hb. destruct x as [l [[[k n] v]|]|l v|o]; simpl in *; auto.
  - destruct Hx as (e & El & _ & Hv & _). rewrite vlatest_mvstore, El by auto. now subst.
  - rewrite vlatest_mvstore, Hx by auto. reflexivity.
  - tauto.
Qed.

Lemma ben_exact_in j log x :
  ben_reads_exact b j log = true -> In x log ->
  match x with RBen o => o = Some (ben_obs b j) | _ => True end.
Proof.
  unfold ben_reads_exact. rewrite forallb_forall. intros H Hin. specialize (H x Hin).
  destruct x as [| |[v|]]; auto; try discriminate. apply Nat.eqb_eq in H. now subst.
Qed.

Lemma mvstore_frozen s s' c :
  (forall l k, k < c -> mv s' l k = mv s l k) -> forall l k, mvstore s' c l k = mvstore s c l k.
Proof. intros H l k. unfold mvstore. destruct (Nat.ltb_spec k c); auto. now rewrite H. Qed.

Lemma inv6_frozen s s' :
  inv1 b s -> inv6 b s -> cidx s' = cidx s -> outs s' = outs s ->
  (forall l k, k < fidx s -> mv s' l k = mv s l k) -> inv6 b s'.
Proof.
  intros I1 (os & Sg & H1 & H2 & H3) Hc Ho Hm. exists os, Sg. rewrite Hc, Ho. repeat split; auto.
  intros l k. rewrite H3. symmetry. apply mvstore_frozen. intros l' k' Hk. apply Hm.
  destruct (i1_commit b s I1) as (A & B & _). lia.
Qed.

Lemma commit_extends s j log ws out rws0 t :
  inv1 b s -> inv2 b s -> inv5 b s -> inv6 b s ->
  ctaken s = Some j -> res s j = Some {| rlog := log; rws := rws0; rres := ROk ws out |} ->
  tx_at b j = Some t ->
  (if chk b then Nat.eqb (nonce_of b (base b s (nonce_loc t))) (tx_nonce t) else true) = true ->
  ben_reads_exact b j log = true ->
  inv6 b (set_commit s (S j) None (outs s ++ [OExec out])).
Proof.
  intros I1 I2 I5 (os & Sg & H1 & H2 & H3) Hct Hres Htx Hnonce Hben.
  destruct (i1_commit b s I1) as (Hc1 & Hc2 & Hc3). rewrite Hct in Hc3. destruct Hc3 as [Hj Hjf]. subst j.
  assert (Hfin : final_ok b s (cidx s)) by (apply I5; lia).
  destruct Hfin as (r & ws' & out' & R1 & R2 & R3 & R4). rewrite Hres in R1. inversion R1; subst r. simpl in *.
  inversion R2; subst ws' out'.
  destruct (i2_res_log b s I2 _ _ Hres) as (_ & _ & _ & Hfol). simpl in Hfol.
  assert (HS : forall l k, Sg l k = mvstore s (cidx s) l k) by exact H3.
  assert (Hrun : run b Sg (cidx s) (body t) = ROk ws out).
  { unfold body_of in Hfol. rewrite Htx in Hfol.
    rewrite (run_ext b Sg (mvstore s (cidx s)) (cidx s) (body t)) by (intros; apply HS).
    rewrite (run_follows _ _ _ _ _ Hfol); [reflexivity|].
    intros x Hx. apply rec_exact_obs; auto. eapply ben_exact_in; eauto. }
  assert (Hseq : seq_tx b Sg (cidx s) t = ROk ws out).
  { unfold seq_tx. destruct (chk b); auto.
    assert (Hbase : base_of b Sg (cidx s) (nonce_loc t) = base b s (nonce_loc t)).
    { unfold base_of, base. destruct (is_ben b (nonce_loc t)); auto.
      rewrite (vlatest_ext (Sg (nonce_loc t)) (mvstore s (cidx s) (nonce_loc t))) by (intros; apply HS).
      rewrite vlatest_mvstore by auto. destruct (lb (mv s (nonce_loc t)) (cidx s)) as [[k e]|]; reflexivity. }
    rewrite Hbase, Hnonce. exact Hrun. }
  assert (Hlen : cidx s < length (txs b)).
  { unfold tx_at in Htx. apply nth_opt_Some_lt in Htx. exact Htx. }
  exists (outs s ++ [OExec out]), (vwrite Sg (cidx s) ws). unfold set_commit; cbn [cidx outs mv].
  split; [|split; [reflexivity|]].
  - rewrite (firstn_S_nth _ _ _ Htx). rewrite (seq_from_snoc _ _ _ _ _ _ H1).
    rewrite firstn_length_le by lia. simpl. rewrite Hseq, H2. reflexivity.
  - intros l k. unfold vwrite, mvstore. cbn [mv]. destruct (Nat.eqb_spec k (cidx s)) as [->|Hne].
    + destruct (Nat.ltb_spec (cidx s) (S (cidx s))); [|lia]. rewrite (R3 l).
      destruct (ws_find l ws); simpl; auto. rewrite HS. unfold mvstore.
      destruct (Nat.ltb_spec (cidx s) (cidx s)); [lia|reflexivity].
    + rewrite HS. unfold mvstore. destruct (Nat.ltb_spec k (cidx s)); destruct (Nat.ltb_spec k (S (cidx s))); auto; lia.
Qed.

Ltac frozen6 I1 I6 := apply (inv6_frozen _ _ I1 I6); simpl; auto.

Theorem inv6_step s e s' :
  inv1 b s -> inv2 b s -> inv5 b s -> inv6 b s -> step b s e = Some s' -> inv6 b s'.
Proof.
  intros I1 I2 I5 I6 H. unfold step in H. destruct (finished s); [discriminate|].
  destruct e.
  - unfold do_xclaim in H. crunch H; subst; auto; frozen6 I1 I6.
  - crunch H; subst; auto.
  - unfold do_xbegin in H. crunch H; subst; frozen6 I1 I6.
  - unfold do_xread in H. crunch H; subst; frozen6 I1 I6.
  - unfold do_xbase in H. crunch H; subst; frozen6 I1 I6.
  - unfold do_xben in H. crunch H; subst; frozen6 I1 I6.
  - unfold do_xpublish in H. crunch H; subst. frozen6 I1 I6.
    intros l' k Hk. apply upd2_other_tx.
    assert (fidx s <= j) by (apply (ge_fidx_of_cs b); auto; congruence). lia.
  - unfold do_xret in H. crunch H; subst; frozen6 I1 I6.
  - unfold do_xunpublish in H. crunch H; subst. frozen6 I1 I6.
    intros l' k Hk. apply upd2_other_tx.
    assert (fidx s <= j) by (apply (ge_fidx_of_cs b); auto; congruence). lia.
  - unfold do_xmarkest in H. crunch H; subst.
    all: match goal with Hm : mark _ _ _ = Some _ |- _ =>
           destruct (mark_frame _ _ _ _ _ Hm) as (M1&M2&M3&M4&M5&M6&M7&M8&M9&M10&M11&M12&M13&M14);
           destruct (mark_mv _ _ _ _ _ Hm) as (e0 & Me & Mw & Mm & Md) end.
    all: frozen6 I1 I6.
    all: rewrite Mm; intros l' k Hk; apply upd2_other_tx.
    all: assert (fidx s <= j) by (apply (ge_fidx_of_cs b); auto; congruence); lia.
  - unfold do_xstatus in H. crunch H; subst; frozen6 I1 I6.
  - unfold do_tick in H. crunch H; subst; frozen6 I1 I6.
  - unfold do_lower in H. crunch H; subst; frozen6 I1 I6.
  - unfold do_xend in H. crunch H; subst; frozen6 I1 I6.
  - unfold do_vclaim in H. crunch H; subst; auto; frozen6 I1 I6.
  - crunch H; subst; auto.
  - unfold do_vbegin in H. crunch H; subst; frozen6 I1 I6.
  - unfold do_vcheck in H. crunch H; subst; frozen6 I1 I6.
  - unfold do_vben in H. crunch H; subst; frozen6 I1 I6.
  - unfold do_vscanned in H. crunch H; subst; frozen6 I1 I6.
  - unfold do_vstatus in H. crunch H; subst; frozen6 I1 I6.
  - unfold do_vend in H. crunch H; subst; frozen6 I1 I6.
  - unfold do_finalize in H. crunch H; subst; frozen6 I1 I6.
  - unfold do_finpublish in H. crunch H; subst; frozen6 I1 I6.
  - unfold do_ctake in H. crunch H; subst; frozen6 I1 I6.
  - (* CDone *) unfold do_cdone in H. crunch H; subst; bool_hyps; subst; try (frozen6 I1 I6; fail).
    unfold nonce_ok in *.
    match goal with Hn : match tx_at b ?j with _ => _ end = true |- _ => destruct (tx_at b j) as [t|] eqn:Et; [|discriminate] end.
    eapply commit_extends; eauto.
  - unfold do_cpublish in H. crunch H; subst; frozen6 I1 I6.
  - unfold do_abort in H. crunch H; subst; auto. destruct first; auto; frozen6 I1 I6.
  - unfold do_postexecute in H. crunch H; subst; frozen6 I1 I6.
Qed.

End P.
