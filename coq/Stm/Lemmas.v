(* Stm/Lemmas.v - basic facts about the helpers of Spec.v / Core.v and inversion of [step]. *)
From Grevm Require Import Base.Util Stm.Spec Stm.Core.

Lemma guard_some b k s : guard b k = Some s -> b = true /\ k = Some s.
Proof. destruct b; simpl; intros H; [auto|discriminate]. Qed.

Ltac inv_guard H :=
  let Hb := fresh "Hg" in
  apply guard_some in H; destruct H as [Hb H].

Ltac bool_hyps :=
  repeat match goal with
  | H : _ && _ = true |- _ => apply andb_prop in H; destruct H
  | H : Nat.eqb _ _ = true |- _ => apply Nat.eqb_eq in H
  | H : Nat.ltb _ _ = true |- _ => apply Nat.ltb_lt in H
  | H : Nat.leb _ _ = true |- _ => apply Nat.leb_le in H
  | H : Bool.eqb _ _ = true |- _ => apply Bool.eqb_prop in H
  | H : negb _ = true |- _ => apply negb_true_iff in H
  end.

Lemma status_eqb_eq a c : status_eqb a c = true <-> a = c.
Proof. destruct a, c; simpl; split; intros H; try reflexivity; try discriminate. Qed.

Lemma upd2_same {A} (f : loc -> nat -> A) l j x : upd2 f l j x l j = x.
Proof. unfold upd2. now rewrite !Nat.eqb_refl. Qed.

Lemma upd2_other {A} (f : loc -> nat -> A) l j x l' j' :
  (l', j') <> (l, j) -> upd2 f l j x l' j' = f l' j'.
Proof.
  unfold upd2. intros H. destruct (Nat.eqb_spec l' l); destruct (Nat.eqb_spec j' j); simpl; auto.
  subst. congruence.
Qed.

Lemma upd2_other_tx {A} (f : loc -> nat -> A) l j x l' j' : j' <> j -> upd2 f l j x l' j' = f l' j'.
Proof. intros H. apply upd2_other. congruence. Qed.

(* ---- lb : latest entry below ---- *)
Lemma lb_some f j k e : lb f j = Some (k, e) -> k < j /\ f k = Some e /\ forall k', k < k' < j -> f k' = None.
Proof.
  induction j as [|j IH]; simpl; [discriminate|].
  destruct (f j) eqn:E.
  - intros H; inversion H; subst. repeat split; auto. intros k' Hk. lia.
  - intros H. destruct (IH H) as (H1 & H2 & H3). repeat split; auto.
    intros k' Hk. destruct (Nat.eq_dec k' j); [subst; auto|apply H3; lia].
Qed.

Lemma lb_none f j : lb f j = None -> forall k, k < j -> f k = None.
Proof.
  induction j as [|j IH]; simpl; intros H k Hk; [lia|].
  destruct (f j) eqn:E; [discriminate|]. destruct (Nat.eq_dec k j); [subst; auto|apply IH; auto; lia].
Qed.

Lemma lb_ext f g j : (forall k, k < j -> f k = g k) -> lb f j = lb g j.
Proof.
  induction j as [|j IH]; simpl; intros H; auto.
  rewrite <- (H j) by lia. destruct (f j); [reflexivity|]. apply IH. intros; apply H; lia.
Qed.

Lemma lb_intro f j k e :
  k < j -> f k = Some e -> (forall k', k < k' < j -> f k' = None) -> lb f j = Some (k, e).
Proof.
  induction j as [|j IH]; intros Hk Hf Hn; [lia|]. simpl.
  destruct (Nat.eq_dec k j) as [->|Hne].
  - now rewrite Hf.
  - rewrite (Hn j) by lia. apply IH; auto; try lia. intros; apply Hn; lia.
Qed.

Lemma lb_none_intro f j : (forall k, k < j -> f k = None) -> lb f j = None.
Proof.
  induction j as [|j IH]; simpl; intros H; auto. rewrite (H j) by lia. apply IH. intros; apply H; lia.
Qed.

(* ---- vlatest ---- *)
Lemma vlatest_ext f g j : (forall k, k < j -> f k = g k) -> vlatest f j = vlatest g j.
Proof.
  induction j as [|j IH]; simpl; intros H; auto.
  rewrite <- (H j) by lia. destruct (f j); [reflexivity|]. apply IH. intros; apply H; lia.
Qed.

Lemma vlatest_lb (f : nat -> option entry) j :
  vlatest (fun k => option_map eval (f k)) j =
  match lb f j with Some (k, e) => Some (k, eval e) | None => None end.
Proof. induction j as [|j IH]; simpl; auto. destruct (f j); simpl; auto. Qed.

(* ---- run only depends on the store below j ---- *)
Lemma run_ext b s s' j p :
  (forall l k, k < j -> s l k = s' l k) -> run b s j p = run b s' j p.
Proof.
  intros H. induction p as [l k IH|l k IH|k IH|r]; simpl; auto.
  rewrite (vlatest_ext (s l) (s' l) j) by (intros; apply H; auto). apply IH.
Qed.

Lemma has_loc_In l ls : has_loc l ls = true <-> In l ls.
Proof.
  unfold has_loc. rewrite existsb_exists. split.
  - intros (x & Hx & He). apply Nat.eqb_eq in He. now subst.
  - intros H. exists l. split; auto. apply Nat.eqb_refl.
Qed.

Lemma has_loc_false l ls : has_loc l ls = false <-> ~ In l ls.
Proof.
  rewrite <- has_loc_In. destruct (has_loc l ls); split; intros H; try congruence; try (exfalso; auto; fail).
Qed.
