(* Stm/Safety.v - the safety theorems of the protocol acceptor: for every block, pre-state,
   configuration and every accepted event list (any number of threads, any interleaving of the
   hook groups), the invariant holds; hence commits are in order and exact, final transactions read
   exactly their predecessors' final entries, and the value returned after the (modelled) suffix
   replay is the in-order execution. *)
From Grevm Require Import Base.Util Stm.Spec Stm.Core Stm.Lemmas Stm.Inv
  Stm.InvProofs1 Stm.InvProofs2 Stm.InvProofs3 Stm.InvProofs4 Stm.InvProofs5 Stm.InvProofs6.

Section S.
Variable b : block.

Lemma Inv_init : Inv b init.
Proof.
  unfold Inv. split; [|split; [|split; [|split; [|split]]]].
  - constructor; simpl; auto; try lia.
    all: try (intros j; unfold cs_ok; simpl; exact Logic.I).
    all: try (intros j; split; [discriminate|lia]).
    all: try (intros; lia).
  - constructor; simpl; try discriminate.
  - constructor; simpl; try discriminate.
    intros j H. unfold settled in H. simpl in H. contradiction.
  - intros j c l ver (r & R & _). simpl in R. discriminate.
  - intros j H. simpl in H. lia.
  - exists [], vempty. simpl. repeat split; auto.
Qed.

Theorem Inv_step s e s' : Inv b s -> step b s e = Some s' -> Inv b s'.
Proof.
  intros (I1 & I2 & I3 & I4 & I5 & I6) H. unfold Inv. split; [|split; [|split; [|split; [|split]]]].
  - eapply inv1_step; eauto.
  - eapply inv2_step; eauto.
  - eapply inv3_step; eauto.
  - eapply inv4_step; eauto.
  - eapply inv5_step; eauto.
  - eapply inv6_step; eauto.
Qed.

Theorem Inv_run s tr s' : Inv b s -> run_trace b s tr = Some s' -> Inv b s'.
Proof.
  revert s; induction tr as [|e tr IH]; simpl; intros s I H.
  - inversion H; subst; auto.
  - destruct (step b s e) as [s1|] eqn:E; [|discriminate]. apply (IH s1); auto. apply (Inv_step s e s1 I E).
Qed.

Corollary Inv_reachable tr s : run_trace b init tr = Some s -> Inv b s.
Proof. apply Inv_run. apply Inv_init. Qed.

(* ---- splitting the in-order execution at the committed boundary ---- *)
Lemma seq_from_app s0 i l1 l2 os Sg :
  seq_from b s0 i l1 = (os, Sg, None) ->
  seq_from b s0 i (l1 ++ l2) =
    let '(os2, S2, e2) := seq_from b Sg (i + length l1) l2 in (os ++ os2, S2, e2).
Proof.
  revert s0 i os Sg. induction l1 as [|t l1 IH]; intros s0 i os Sg H; simpl in *.
  - inversion H; subst. rewrite Nat.add_0_r. destruct (seq_from b Sg i l2) as [[a c] d]. reflexivity.
  - destruct (seq_tx b s0 i t) as [ws out|r|e] eqn:E0.
    + destruct (seq_from b (vwrite s0 i ws) (S i) l1) as [[os1 S1] e1] eqn:E1. inversion H; subst.
      rewrite (IH _ _ _ _ E1). replace (S i + length l1) with (i + S (length l1)) by lia.
      destruct (seq_from b Sg (i + S (length l1)) l2) as [[a c] d]. reflexivity.
    + destruct (seq_from b s0 (S i) l1) as [[os1 S1] e1] eqn:E1. inversion H; subst.
      rewrite (IH _ _ _ _ E1). replace (S i + length l1) with (i + S (length l1)) by lia.
      destruct (seq_from b Sg (i + S (length l1)) l2) as [[a c] d]. reflexivity.
    + discriminate.
Qed.

Lemma seq_from_ext s0 s1 i ts :
  (forall l k, s0 l k = s1 l k) ->
  let '(o0, _, e0) := seq_from b s0 i ts in let '(o1, _, e1) := seq_from b s1 i ts in o0 = o1 /\ e0 = e1.
Proof.
  revert s0 s1 i. induction ts as [|t ts IH]; intros s0 s1 i H; simpl; auto.
  assert (Hst : seq_tx b s0 i t = seq_tx b s1 i t).
  { unfold seq_tx. assert (Hr : run b s0 i (body t) = run b s1 i (body t)) by (apply run_ext; intros; apply H).
    assert (Hb : base_of b s0 i (nonce_loc t) = base_of b s1 i (nonce_loc t)).
    { unfold base_of. destruct (is_ben b (nonce_loc t)); auto.
      rewrite (vlatest_ext (s0 (nonce_loc t)) (s1 (nonce_loc t))) by (intros; apply H). reflexivity. }
    rewrite Hr, Hb. reflexivity. }
  rewrite Hst. destruct (seq_tx b s1 i t) as [ws out|r|e]; auto.
  - specialize (IH (vwrite s0 i ws) (vwrite s1 i ws) (S i)).
    assert (Hw : forall l k, vwrite s0 i ws l k = vwrite s1 i ws l k).
    { intros l k. unfold vwrite. destruct (Nat.eqb k i); auto. destruct (ws_find l ws); auto. }
    specialize (IH Hw).
    destruct (seq_from b (vwrite s0 i ws) (S i) ts) as [[a0 c0] d0].
    destruct (seq_from b (vwrite s1 i ws) (S i) ts) as [[a1 c1] d1]. destruct IH; subst; auto.
  - specialize (IH s0 s1 (S i) H).
    destruct (seq_from b s0 (S i) ts) as [[a0 c0] d0].
    destruct (seq_from b s1 (S i) ts) as [[a1 c1] d1]. destruct IH; subst; auto.
Qed.

(* the value execute() returns, as control.rs / fallback.rs compute it from the committed prefix:
   the committed outcomes followed by the sequential replay of the uncommitted suffix *)
Definition replay_suffix (s : state) : list outcome * option (nat * nat) :=
  let '(os, _, e) := seq_from b (mvstore s (cidx s)) (cidx s) (skipn (cidx s) (txs b)) in
  (outs s ++ os, e).

Theorem committed_prefix_exact tr s :
  run_trace b init tr = Some s ->
  exists Sg, seq_from b vempty 0 (firstn (cidx s) (txs b)) = (outs s, Sg, None) /\
             forall l k, Sg l k = mvstore s (cidx s) l k.
Proof.
  intros H. destruct (Inv_reachable tr s H) as (_ & _ & _ & _ & _ & (os & Sg & H1 & H2 & H3)).
  subst os. eauto.
Qed.

Theorem replay_is_in_order tr s :
  run_trace b init tr = Some s ->
  replay_suffix s = (fst (fst (seq_block b)), snd (seq_block b)).
Proof.
  intros H. destruct (committed_prefix_exact tr s H) as (Sg & H1 & H2).
  destruct (Inv_reachable tr s H) as (I1 & _).
  assert (Hc : cidx s <= length (txs b)).
  { destruct (i1_commit b s I1) as (A & B & _). pose proof (i1_fidx b s I1). unfold ntx in *. lia. }
  assert (Hsb : seq_block b =
            let '(os2, S2, e2) := seq_from b Sg (cidx s) (skipn (cidx s) (txs b)) in (outs s ++ os2, S2, e2)).
  { unfold seq_block. rewrite <- (firstn_skipn (cidx s) (txs b)) at 1.
    rewrite (seq_from_app _ _ _ _ _ _ H1). rewrite firstn_length_le by exact Hc. reflexivity. }
  rewrite Hsb. unfold replay_suffix.
  pose proof (seq_from_ext Sg (mvstore s (cidx s)) (cidx s) (skipn (cidx s) (txs b)) H2) as He.
  destruct (seq_from b Sg (cidx s) (skipn (cidx s) (txs b))) as [[a0 c0] d0].
  destruct (seq_from b (mvstore s (cidx s)) (cidx s) (skipn (cidx s) (txs b))) as [[a1 c1] d1].
  destruct He; subst. reflexivity.
Qed.

(* every commit event hits exactly the next index *)
Theorem commits_in_order s j kind s' :
  Inv b s -> step b s (CDone j kind) = Some s' -> j = cidx s /\ (kind = 0 -> cidx s' = S j) /\ (kind <> 0 -> cidx s' = cidx s /\ outs s' = outs s).
Proof.
  intros (I1 & _) H. unfold step in H. destruct (finished s); [discriminate|].
  unfold do_cdone in H. destruct (i1_commit b s I1) as (_ & _ & Hc).
  destruct (ctaken s) as [j'|] eqn:Et; [|discriminate]. destruct Hc as [Hj _].
  apply guard_some in H. destruct H as [Hg H]. apply Nat.eqb_eq in Hg. subst.
  split; auto. destruct kind as [|[|k]].
  - crunch H; subst; simpl; split; auto; intros; congruence.
  - crunch H; subst; simpl; split; auto; intros; congruence.
  - inversion H; subst; simpl. split; auto; intros; congruence.
Qed.

(* a transaction is final only with reads that resolve exactly to its predecessors' final entries *)
Theorem final_reads_exact tr s j :
  run_trace b init tr = Some s -> st s j = Final -> final_ok b s j.
Proof.
  intros H Hf. destruct (Inv_reachable tr s H) as (I1 & _ & _ & _ & I5 & _).
  apply I5. apply (i1_final b s I1). exact Hf.
Qed.

(* a validation that predates a rewind covering its transaction cannot make it final *)
Theorem finality_needs_validation_newer_than_rewinds tr s j n eff s' :
  run_trace b init tr = Some s -> step b s (Finalize j n eff) = Some s' ->
  st s j = Unconfirmed /\ forall i, i <= j -> lower s i < unconf s j.
Proof.
  intros H Hs. destruct (Inv_reachable tr s H) as (I1 & _).
  unfold step in Hs. destruct (finished s); [discriminate|]. unfold do_finalize in Hs.
  crunch Hs; subst; bool_hyps; subst.
  match goal with Hx : status_eqb _ _ = true |- _ => apply status_eqb_eq in Hx end.
  split; auto. intros i Hi. destruct (Nat.eq_dec i (fidx s)) as [->|Hne]; [lia|].
  assert (Hlt : i < fidx s) by lia. pose proof (i1_carried b s I1 i Hlt). lia.
Qed.

End S.
