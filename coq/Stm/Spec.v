(* Stm/Spec.v - sequential specification for the Block-STM protocol model (definitions only).

   A transaction is a deterministic reader [prog]: a tree whose nodes are database-level lookups
   and whose leaves are results.  It is a shallow embedding, so theorems quantify over arbitrary
   data-dependent read/write behaviour.  Two kinds of lookup exist, exactly as in
   src/incarnation_db.rs: a multi-version lookup [Rd l] that observes the latest preceding writer
   of location [l] (its transaction index and value) or nothing, and a backing-store read
   [RdBase l] that is only issued after the lookups of [l] (and of the storage-reset marker that
   governs [l], if any) came back empty.

   The in-order reference [seq_run] executes the block one transaction at a time against the
   versioned store that contains the in-order writes of its predecessors. *)
From Grevm Require Import Base.Util.

Definition loc := nat.
Definition val := nat.

(* what a multi-version lookup hands to the transaction: writer index and value *)
Definition obs := option (nat * val).

Inductive result :=
| ROk (ws : list (loc * val)) (out : nat)      (* success / revert / halt: write set and outcome digest *)
| RInvalid (reason : nat)                      (* EVMError::Transaction                                *)
| RFatal (err : nat).                          (* database / custom / precompile fatal error           *)

Inductive prog :=
| Rd (l : loc) (k : obs -> prog)
| RdBase (l : loc) (k : val -> prog)
| RdBen (k : option val -> prog)      (* fee-recipient account via the reward history; None = blocked *)
| Done (r : result).

Record tx := {
  body : prog;               (* executed with the nonce check off (what a worker runs)          *)
  nonce_loc : loc;           (* location holding the sender account                              *)
  tx_nonce : nat;
}.

Record block := {
  txs : list tx;
  pre : loc -> val;                   (* pre-state (backing database)                            *)
  marker : loc -> option loc;         (* storage slot -> the reset marker location of its account *)
  nonce_of : val -> nat;              (* decode the nonce from an account value                   *)
  chk : bool;                         (* nonce check enabled                                      *)
  nonce_reason : nat -> nat -> nat;   (* InvalidTransaction::Nonce{TooLow,TooHigh} digest         *)
  ben_loc : option loc;               (* account location of the fee recipient (not kept in mv)   *)
  ben_obs : nat -> val;               (* the fee recipient's account just before tx j, in order   *)
}.

Definition ntx (b : block) : nat := length (txs b).
Definition tx_at (b : block) (j : nat) : option tx := nth_opt (txs b) j.

(* ---- the in-order versioned store: for each location the writes of transactions, by index ---- *)
Definition vstore := loc -> nat -> option val.

Definition vempty : vstore := fun _ _ => None.

Fixpoint vlatest (f : nat -> option val) (j : nat) : obs :=
  match j with
  | O => None
  | S j' => match f j' with Some v => Some (j', v) | None => vlatest f j' end
  end.

Fixpoint ws_find (l : loc) (ws : list (loc * val)) : option val :=
  match ws with
  | [] => None
  | (l', v) :: ws' => if Nat.eqb l l' then Some v else ws_find l ws'
  end.

Definition vwrite (s : vstore) (j : nat) (ws : list (loc * val)) : vstore :=
  fun l k => if Nat.eqb k j then
               match ws_find l ws with Some v => Some v | None => s l k end
             else s l k.

(* the committed (backing) state after the in-order writes recorded in [s] for transactions < j;
   the fee recipient's account is not kept in the versioned store: its in-order value is [ben_obs] *)
Definition is_ben (b : block) (l : loc) : bool :=
  match ben_loc b with Some l' => Nat.eqb l l' | None => false end.

Definition base_of (b : block) (s : vstore) (j : nat) : loc -> val :=
  fun l => if is_ben b l then ben_obs b j
           else match vlatest (s l) j with Some (_, v) => v | None => pre b l end.

(* run one transaction [j] against the in-order store: every lookup sees the latest writer < j;
   a backing read returns the pre-state (it is only issued when no predecessor wrote the location
   or reset it - see [wf_prog] in Stm/Inv.v) *)
Fixpoint run (b : block) (s : vstore) (j : nat) (p : prog) : result :=
  match p with
  | Rd l k => run b s j (k (vlatest (s l) j))
  | RdBase l k => run b s j (k (pre b l))
  | RdBen k => run b s j (k (Some (ben_obs b j)))
  | Done r => r
  end.

Inductive outcome :=
| OExec (out : nat)
| OSkip (reason : nat).

(* in-order revm: validation (nonce rule) against the state left by the predecessors, then the body *)
Definition seq_tx (b : block) (s : vstore) (j : nat) (t : tx) : result :=
  if chk b then
    let n := nonce_of b (base_of b s j (nonce_loc t)) in
    if Nat.eqb n (tx_nonce t) then run b s j (body t)
    else RInvalid (nonce_reason b (tx_nonce t) n)
  else run b s j (body t).

(* fold the block in order: outcomes, final store, and the first fatal error (index, error) *)
Fixpoint seq_from (b : block) (s : vstore) (j : nat) (ts : list tx)
  : list outcome * vstore * option (nat * nat) :=
  match ts with
  | [] => ([], s, None)
  | t :: ts' =>
      match seq_tx b s j t with
      | ROk ws out =>
          let '(os, s', e) := seq_from b (vwrite s j ws) (S j) ts' in (OExec out :: os, s', e)
      | RInvalid r =>
          let '(os, s', e) := seq_from b s (S j) ts' in (OSkip r :: os, s', e)
      | RFatal e => ([], s, Some (j, e))
      end
  end.

Definition seq_block (b : block) := seq_from b vempty 0 (txs b).

(* the in-order store before transaction j, and the in-order result of transaction j *)
Fixpoint store_before (b : block) (s : vstore) (i : nat) (ts : list tx) (j : nat) : vstore :=
  match ts with
  | [] => s
  | t :: ts' =>
      if Nat.leb j i then s
      else match seq_tx b s i t with
           | ROk ws _ => store_before b (vwrite s i ws) (S i) ts' j
           | _ => store_before b s (S i) ts' j
           end
  end.

Definition seq_store (b : block) (j : nat) : vstore := store_before b vempty 0 (txs b) j.

Definition seq_result (b : block) (j : nat) : option result :=
  match tx_at b j with
  | Some t => Some (seq_tx b (seq_store b j) j t)
  | None => None
  end.
