From Grevm Require Import Base.Util Wait.Model.
Require Extraction. Require ExtrOcamlBasic.
Extraction Language OCaml.
Extraction "extract/wait.ml" winit wstep wrun wrun_diag asleep_unblocked pending_at.
