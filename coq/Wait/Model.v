(* Wait/Model.v - src/scheduler/wait.rs WaitSlot with the std parker's contract (definitions only).

   One waiter: register_current_thread once, then any number of wait_while calls
   (check ; yield ; check ; park_timeout).  Any number of producers, each: make the predicate
   unblocked ; notify (= read the slot ; unpark if registered).  The predicate may also become
   blocked again at any time.  The parker: unpark sets the single token, park consumes it or
   blocks; spurious wake-ups are allowed.  Under this model park has NO timeout: a waiter that is
   parked without a token while its predicate is unblocked and no notification is pending would
   sleep forever - that state is what the theorems exclude. *)
From Grevm Require Import Base.Util.

Inductive wpc := WInit | WIdle | WChecked1 | WChecked2 | WParked.
Inductive ppc := PIdle | PUnblocked | PRead (reg : bool) | PDone.

Record wstate := {
  registered : bool;
  token : bool;
  blocked : bool;
  wp : wpc;
  pp : nat -> ppc;
}.

Definition winit (b0 : bool) : wstate :=
  {| registered := false; token := false; blocked := b0; wp := WInit; pp := fun _ => PIdle |}.

Inductive wevent :=
| WRegister
| WCheck1 (b : bool)            (* first predicate evaluation of wait_while          *)
| WCheck2 (b : bool)            (* second evaluation, after the yield                *)
| WPark                         (* park_timeout: consume the token or block          *)
| WWake                         (* a parked waiter resumes because the token was set *)
| WSpurious                     (* a parked waiter resumes for no reason             *)
| PUnblock (p : nat)            (* producer p makes the predicate unblocked          *)
| PNotifyRead (p : nat) (r : bool)   (* notify(): self.thread.get().is_some()        *)
| PUnpark (p : nat)             (* thread.unpark()                                   *)
| PSkip (p : nat)               (* notify() found no registered thread               *)
| PAgain (p : nat)              (* producer starts another round                     *)
| Reblock.                      (* the predicate becomes blocked again               *)

Definition setw (s : wstate) r t bl w p := {| registered := r; token := t; blocked := bl; wp := w; pp := p |}.

Definition wstep (s : wstate) (e : wevent) : option wstate :=
  match e with
  | WRegister =>
      match wp s with WInit => Some (setw s true (token s) (blocked s) WIdle (pp s)) | _ => None end
  | WCheck1 b =>
      match wp s with
      | WIdle => if Bool.eqb b (blocked s)
                 then Some (setw s (registered s) (token s) (blocked s) (if b then WChecked1 else WIdle) (pp s))
                 else None
      | _ => None
      end
  | WCheck2 b =>
      match wp s with
      | WChecked1 => if Bool.eqb b (blocked s)
                     then Some (setw s (registered s) (token s) (blocked s) (if b then WChecked2 else WIdle) (pp s))
                     else None
      | _ => None
      end
  | WPark =>
      match wp s with
      | WChecked2 => if token s then Some (setw s (registered s) false (blocked s) WIdle (pp s))
                     else Some (setw s (registered s) false (blocked s) WParked (pp s))
      | _ => None
      end
  | WWake =>
      match wp s with
      | WParked => if token s then Some (setw s (registered s) false (blocked s) WIdle (pp s)) else None
      | _ => None
      end
  | WSpurious =>
      match wp s with
      | WParked => Some (setw s (registered s) (token s) (blocked s) WIdle (pp s))
      | _ => None
      end
  | PUnblock p =>
      match pp s p with
      | PIdle => Some (setw s (registered s) (token s) false (wp s) (upd (pp s) p PUnblocked))
      | _ => None
      end
  | PNotifyRead p r =>
      match pp s p with
      | PUnblocked => if Bool.eqb r (registered s)
                      then Some (setw s (registered s) (token s) (blocked s) (wp s) (upd (pp s) p (PRead r)))
                      else None
      | _ => None
      end
  | PUnpark p =>
      match pp s p with
      | PRead true => Some (setw s (registered s) true (blocked s) (wp s) (upd (pp s) p PDone))
      | _ => None
      end
  | PSkip p =>
      match pp s p with
      | PRead false => Some (setw s (registered s) (token s) (blocked s) (wp s) (upd (pp s) p PDone))
      | _ => None
      end
  | PAgain p =>
      match pp s p with
      | PDone => Some (setw s (registered s) (token s) (blocked s) (wp s) (upd (pp s) p PIdle))
      | _ => None
      end
  | Reblock => Some (setw s (registered s) (token s) true (wp s) (pp s))
  end.

Fixpoint wrun (s : wstate) (tr : list wevent) : option wstate :=
  match tr with
  | [] => Some s
  | e :: tr' => match wstep s e with Some s' => wrun s' tr' | None => None end
  end.

Fixpoint wrun_diag (s : wstate) (tr : list wevent) (i : nat) : wstate * option nat :=
  match tr with
  | [] => (s, None)
  | e :: tr' => match wstep s e with Some s' => wrun_diag s' tr' (S i) | None => (s, Some i) end
  end.

(* a notification still on its way: the producer changed the predicate and has not finished notify *)
Definition pending_at (x : ppc) : bool :=
  match x with PUnblocked => true | PRead true => true | _ => false end.

(* the state the stall timer exists for: asleep, no token, predicate unblocked *)
Definition asleep_unblocked (s : wstate) : bool :=
  match wp s with WParked => negb (token s) && negb (blocked s) | _ => false end.
