(* Wait/Progress.v - the progress half of C17: the notifications that are still in flight are
   enough to wake a parked waiter.  No timeout, no spurious wake-up, no further unblock and no
   further producer round is used: only the remaining steps of ONE pending notify() and the
   resumption of the waiter. *)
From Grevm Require Import Base.Util Wait.Model Wait.Proofs.

(* the events a wake-up path may consist of *)
Definition completes_notify (e : wevent) : bool :=
  match e with PNotifyRead _ _ | PUnpark _ | WWake => true | _ => false end.

Lemma winv_registered s : winv s -> wp s <> WInit -> registered s = true.
Proof.
  intros [Ir _] Hne. destruct (registered s) eqn:Er; auto.
Qed.

Lemma wake_with_token s :
  wp s = WParked -> token s = true -> exists s', wstep s WWake = Some s' /\ wp s' = WIdle /\ blocked s' = blocked s.
Proof. intros Hp Ht. unfold wstep. rewrite Hp, Ht. eexists. split; [reflexivity|]. split; reflexivity. Qed.

Lemma unpark_then_wake s p :
  wp s = WParked -> pp s p = PRead true ->
  exists s', wrun s [PUnpark p; WWake] = Some s' /\ wp s' = WIdle /\ blocked s' = blocked s.
Proof.
  intros Hp Hq. cbn [wrun]. unfold wstep at 1. rewrite Hq.
  set (s1 := setw s (registered s) true (blocked s) (wp s) (upd (pp s) p PDone)).
  destruct (wake_with_token s1) as (s' & Hs & Hw & Hb); [exact Hp|reflexivity|].
  rewrite Hs. exists s'. split; [reflexivity|]. split; [exact Hw|exact Hb].
Qed.

Lemma notify_then_wake s p :
  winv s -> wp s = WParked -> pp s p = PUnblocked ->
  exists s', wrun s [PNotifyRead p true; PUnpark p; WWake] = Some s' /\ wp s' = WIdle /\ blocked s' = blocked s.
Proof.
  intros I Hp Hq. assert (Hr : registered s = true) by (apply winv_registered; [exact I|congruence]).
  cbn [wrun]. unfold wstep at 1. rewrite Hq, Hr. cbn [Bool.eqb].
  set (s1 := setw s true (token s) (blocked s) (wp s) (upd (pp s) p (PRead true))).
  destruct (unpark_then_wake s1 p) as (s' & Hs & Hw & Hb); [exact Hp|apply upd_same|].
  cbn [wrun] in Hs. rewrite Hs. exists s'. split; [reflexivity|]. split; [exact Hw|exact Hb].
Qed.

Lemma parked_unblocked_is_woken s :
  winv s -> wp s = WParked -> blocked s = false ->
  exists tr' s', length tr' <= 3 /\ forallb completes_notify tr' = true /\
                 wrun s tr' = Some s' /\ wp s' = WIdle /\ blocked s' = false.
Proof.
  intros I Hp Hb. destruct (token s) eqn:Et.
  - destruct (wake_with_token s Hp Et) as (s' & Hs & Hw & Hb').
    exists [WWake], s'. cbn [wrun length forallb completes_notify andb]. rewrite Hs.
    repeat split; auto. congruence.
  - destruct I as [Ir Im] eqn:EI. destruct (Im (or_intror Hp) Hb) as [X|(p & X)]; [congruence|].
    destruct (pp s p) as [| |r|] eqn:Eq; try discriminate.
    + destruct (notify_then_wake s p) as (s' & Hs & Hw & Hb'); auto.
      exists [PNotifyRead p true; PUnpark p; WWake], s'. repeat split; auto. congruence.
    + destruct r; try discriminate.
      destruct (unpark_then_wake s p) as (s' & Hs & Hw & Hb'); auto.
      exists [PUnpark p; WWake], s'. repeat split; auto. cbn [length]. auto. congruence.
Qed.

(* after the wake-up the next event of the waiter is the predicate evaluation, and it sees the
   unblocked predicate: wait_while returns *)
Lemma idle_check_returns s :
  wp s = WIdle -> blocked s = false -> exists s', wstep s (WCheck1 false) = Some s' /\ wp s' = WIdle.
Proof. intros Hp Hb. unfold wstep. rewrite Hp, Hb. cbn [Bool.eqb]. eexists. split; reflexivity. Qed.

(* Why the tie also checks that the evaluated predicate IS the published state (stage `finprobe`,
   seeded change C17-r5: try_lock on the candidate's mutex in the finality predicate): a waiter
   whose evaluation may answer "blocked" although the published predicate is unblocked loses the
   wake-up - the safety theorem is refuted for that variant. *)
Definition wstep_unfaithful (s : wstate) (e : wevent) : option wstate :=
  match e with
  | WCheck1 true =>
      match wp s with WIdle => Some (setw s (registered s) (token s) (blocked s) WChecked1 (pp s)) | _ => None end
  | WCheck2 true =>
      match wp s with WChecked1 => Some (setw s (registered s) (token s) (blocked s) WChecked2 (pp s)) | _ => None end
  | _ => wstep s e
  end.

Fixpoint wrun_unfaithful (s : wstate) (tr : list wevent) : option wstate :=
  match tr with
  | [] => Some s
  | e :: tr' => match wstep_unfaithful s e with Some s' => wrun_unfaithful s' tr' | None => None end
  end.

Definition unfaithful_witness : list wevent :=
  [WRegister; WCheck1 true; WCheck2 true; WPark;
   PUnblock 0; PNotifyRead 0 true; PUnpark 0; WWake;
   WCheck1 true; WCheck2 true; WPark].

Lemma unfaithful_predicate_loses_wakeup :
  exists s, wrun_unfaithful (winit true) unfaithful_witness = Some s /\
            asleep_unblocked s = true /\ forall p, pending_at (pp s p) = false.
Proof.
  eexists. split; [vm_compute; reflexivity|]. split; [reflexivity|].
  intros [|p]; reflexivity.
Qed.
