From Grevm Require Import Base.Util Wait.Model.

Definition pending (s : wstate) : Prop := exists p, pending_at (pp s p) = true.

Record winv (s : wstate) : Prop := {
  wi_reg : registered s = false -> wp s = WInit;
  wi_main : (wp s = WChecked2 \/ wp s = WParked) -> blocked s = false -> token s = true \/ pending s;
}.

Lemma winv_init b0 : winv (winit b0).
Proof. constructor; simpl; auto. intros [H|H]; discriminate. Qed.

Lemma pending_upd_keep s p x q :
  pending_at (pp s q) = true -> q <> p -> exists r, pending_at (upd (pp s) p x r) = true.
Proof. intros H Hne. exists q. now rewrite upd_other. Qed.

Lemma winv_step s e s' : winv s -> wstep s e = Some s' -> winv s'.
Proof.
  intros [Ir Im] H.
  assert (Hreg : forall w, wp s = w -> w <> WInit -> registered s = false -> False).
  { intros w Hw Hne Hr. apply Ir in Hr. congruence. }
  destruct e; simpl in H.
  - (* WRegister *) destruct (wp s) eqn:E; try discriminate. inversion H; subst. constructor; simpl.
    + discriminate.
    + intros [X|X]; discriminate.
  - (* WCheck1 *) destruct (wp s) eqn:E; try discriminate. destruct (Bool.eqb b (blocked s)) eqn:Eb; try discriminate.
    inversion H; subst. constructor; simpl.
    + intros Hr. exfalso. eapply Hreg; eauto. discriminate.
    + destruct b; intros [X|X]; discriminate.
  - (* WCheck2 *) destruct (wp s) eqn:E; try discriminate. destruct (Bool.eqb b (blocked s)) eqn:Eb; try discriminate.
    apply Bool.eqb_prop in Eb. inversion H; subst. constructor; simpl.
    + intros Hr. exfalso. eapply Hreg; eauto. discriminate.
    + destruct (blocked s); simpl; intros [X|X] Hb; discriminate.
  - (* WPark *) destruct (wp s) eqn:E; try discriminate. destruct (token s) eqn:Et; inversion H; subst; constructor; simpl.
    + intros Hr. exfalso. eapply Hreg; eauto. discriminate.
    + intros [X|X]; discriminate.
    + intros Hr. exfalso. eapply Hreg; eauto. discriminate.
    + intros _ Hb. destruct (Im (or_introl eq_refl) Hb) as [X|X]; [congruence|]. right. exact X.
  - (* WWake *) destruct (wp s) eqn:E; try discriminate. destruct (token s) eqn:Et; try discriminate.
    inversion H; subst. constructor; simpl.
    + intros Hr. exfalso. eapply Hreg; eauto. discriminate.
    + intros [X|X]; discriminate.
  - (* WSpurious *) destruct (wp s) eqn:E; try discriminate. inversion H; subst. constructor; simpl.
    + intros Hr. exfalso. eapply Hreg; eauto. discriminate.
    + intros [X|X]; discriminate.
  - (* PUnblock *) destruct (pp s p) eqn:E; try discriminate. inversion H; subst. constructor; simpl.
    + exact Ir.
    + intros _ _. right. exists p. simpl. now rewrite upd_same.
  - (* PNotifyRead *) destruct (pp s p) eqn:E; try discriminate. destruct (Bool.eqb r (registered s)) eqn:Eb; try discriminate.
    apply Bool.eqb_prop in Eb. inversion H; subst. constructor; simpl.
    + exact Ir.
    + intros Hw Hb. destruct (registered s) eqn:Er.
      * right. exists p. simpl. now rewrite upd_same.
      * specialize (Ir eq_refl). destruct Hw; congruence.
  - (* PUnpark *) destruct (pp s p) as [| |[|]|] eqn:E; try discriminate. inversion H; subst. constructor; simpl.
    + exact Ir.
    + intros _ _. left. reflexivity.
  - (* PSkip *) destruct (pp s p) as [| |[|]|] eqn:E; try discriminate. inversion H; subst. constructor; simpl.
    + exact Ir.
    + intros Hw Hb. destruct (Im Hw Hb) as [X|(q & X)]; auto. right.
      destruct (Nat.eq_dec q p) as [->|Hne]; [rewrite E in X; discriminate|].
      exists q. simpl. now rewrite upd_other.
  - (* PAgain *) destruct (pp s p) eqn:E; try discriminate. inversion H; subst. constructor; simpl.
    + exact Ir.
    + intros Hw Hb. destruct (Im Hw Hb) as [X|(q & X)]; auto. right.
      destruct (Nat.eq_dec q p) as [->|Hne]; [rewrite E in X; discriminate|].
      exists q. simpl. now rewrite upd_other.
  - (* Reblock *) inversion H; subst. constructor; simpl.
    + exact Ir.
    + discriminate.
Qed.

Lemma winv_run s tr s' : winv s -> wrun s tr = Some s' -> winv s'.
Proof.
  revert s; induction tr as [|e tr IH]; simpl; intros s I H.
  - inversion H; subst; auto.
  - destruct (wstep s e) as [s1|] eqn:E; [|discriminate]. apply (IH s1); auto. eapply winv_step; eauto.
Qed.
