//! C07 correspondence driver: the real `Beneficiary`/`BeneficiaryHistory`, `from_gas`, `apply_to`,
//! `BeneficiaryMode::apply` (through `grevm::verif::ben`) and revm's own `reward_beneficiary`.
//!
//! usage: ben <kind> <seed> <count> <outdir>      kind = hist | arith | block
//! Writes <outdir>/ben_<kind>.in (one case per line: the model's input) and
//! <outdir>/ben_<kind>.impl (what the real code returned). Every random choice derives from <seed>.
//!
//! Grammar (numbers are lower-case hex, space separated tokens):
//!   acct   := "-" | "A:" bal ":" nonce ":" code          code: 0 KECCAK_EMPTY, 1 B256::ZERO, k other
//!   jacct  := "-" | flags "/" acct                        flags: 1 touched 2 created 4 selfdestructed
//!                                                                8 loaded-as-not-existing
//!   hist n anchor op*      op := x,t,i,kind | e,t,i | i,t,i | q,t | v,t,versions
//!                          kind := u | r<amt> | j<jacct> | b<amt>;<jacct>
//!                          versions := "_" | t.i ("/" t.i)*
//!   gas cfg basefee tx gas db         cfg := spec,feedis   tx := type,price,prio|-
//!                                     gas := limit,remaining,refunded(signed),reservoir
//!   mode D|I cfg basefee tx gas db journal
//!   apply amt acct
//! Results: T/F (bool), P (panic), E<k> (blocked), O<acct>[versions], V<valid>,<dep>,
//!   R<amount|-> H<jacct>, D<deferred|-> J<jacct> F<jacct> C<class> E<resolve>, acct.
//! A trailing " X:<why>" on an impl line is a model-independent cross-check that failed.
use grevm::verif::ben::{self, BenV};
use revm::{
    Context, MainBuilder, MainContext,
    context::{BlockEnv, CfgEnv, TxEnv},
    context_interface::{
        ContextTr, JournalTr,
        result::{EVMError, InvalidTransaction},
    },
    handler::{FrameResult, post_execution},
    interpreter::{CallOutcome, Gas, InstructionResult, InterpreterResult},
};
use revm_database::{CacheDB, EmptyDB};
use revm_primitives::{Address, B256, Bytes, KECCAK_EMPTY, U256, hardfork::SpecId};
use revm_state::{Account, AccountInfo, AccountStatus, EvmState};
use std::{convert::Infallible, fmt::Write as _, fs, panic::AssertUnwindSafe};
use verif_harness::rng::Rng;

const BEN: Address = Address::with_last_byte(0xCB);

// ------------------------------------------------------------------------------- plain data

#[derive(Clone, Debug, PartialEq)]
struct Acct {
    bal: U256,
    nonce: u64,
    code: u8,
}

fn code_hash(id: u8) -> B256 {
    match id {
        0 => KECCAK_EMPTY,
        1 => B256::ZERO,
        k => B256::with_last_byte(k),
    }
}

fn code_id(h: &B256) -> String {
    if *h == KECCAK_EMPTY {
        "0".into()
    } else if *h == B256::ZERO {
        "1".into()
    } else if h.0[..31].iter().all(|b| *b == 0) {
        format!("{:x}", h.0[31])
    } else {
        format!("?{h:x}")
    }
}

impl Acct {
    fn info(&self) -> AccountInfo {
        AccountInfo { balance: self.bal, nonce: self.nonce, code_hash: code_hash(self.code), account_id: None, code: None }
    }
    fn show(&self) -> String {
        format!("A:{:x}:{:x}:{:x}", self.bal, self.nonce, self.code)
    }
}

fn show_info(i: &AccountInfo) -> String {
    format!("A:{:x}:{:x}:{}", i.balance, i.nonce, code_id(&i.code_hash))
}
fn show_oinfo(i: Option<&AccountInfo>) -> String {
    i.map_or("-".into(), show_info)
}
fn show_oacct(a: &Option<Acct>) -> String {
    a.as_ref().map_or("-".into(), Acct::show)
}

fn flags_of(a: &Account) -> u8 {
    (a.is_touched() as u8)
        | (a.is_created() as u8) << 1
        | (a.is_selfdestructed() as u8) << 2
        | (a.is_loaded_as_not_existing() as u8) << 3
}
fn show_jacct(a: Option<&Account>) -> String {
    a.map_or("-".into(), |a| format!("{:x}/{}", flags_of(a), show_info(&a.info)))
}
fn make_account(flags: u8, info: &Acct) -> Account {
    let mut a = Account::from(info.info());
    let mut st = AccountStatus::empty();
    if flags & 1 != 0 {
        st |= AccountStatus::Touched;
    }
    if flags & 2 != 0 {
        st |= AccountStatus::Created;
    }
    if flags & 4 != 0 {
        st |= AccountStatus::SelfDestructed;
    }
    if flags & 8 != 0 {
        st |= AccountStatus::LoadedAsNotExisting;
    }
    a.status = st;
    a
}

fn show_versions(v: &[(usize, usize)]) -> String {
    if v.is_empty() {
        "_".into()
    } else {
        v.iter().map(|(t, i)| format!("{t:x}.{i:x}")).collect::<Vec<_>>().join("/")
    }
}

fn caught<T>(f: impl FnOnce() -> T) -> Option<T> {
    std::panic::catch_unwind(AssertUnwindSafe(f)).ok()
}

// ------------------------------------------------------------------------------- generators

fn gen_u256(rng: &mut Rng) -> U256 {
    match rng.below(9) {
        0 => U256::ZERO,
        1 => U256::from(rng.below(16)),
        2 => U256::MAX,
        3 => U256::MAX - U256::from(rng.below(8)),
        4 => U256::from(u128::MAX) + U256::from(rng.below(3)) - U256::from(1u8),
        5 => U256::from(u64::MAX) + U256::from(rng.below(3)) - U256::from(1u8),
        6 => U256::from_limbs([rng.next(), rng.next(), rng.next(), rng.next()]),
        7 => U256::from(1u8) << (rng.below(256) as usize),
        _ => U256::from(rng.below(1000)),
    }
}

fn gen_acct(rng: &mut Rng) -> Acct {
    let bal = gen_u256(rng);
    let nonce = match rng.below(6) {
        0 | 1 | 2 => 0,
        3 => 1,
        4 => u64::MAX,
        _ => rng.below(100),
    };
    let code = match rng.below(8) {
        0..=3 => 0,
        4 => 1,
        5 => 2,
        _ => 3,
    };
    Acct { bal, nonce, code }
}

fn gen_oacct(rng: &mut Rng) -> Option<Acct> {
    if rng.chance(1, 4) {
        None
    } else if rng.chance(1, 6) {
        // an existing but empty account
        Some(Acct { bal: U256::ZERO, nonce: 0, code: rng.below(2) as u8 })
    } else {
        Some(gen_acct(rng))
    }
}

/// a reward amount; `near` is a balance to aim at the overflow boundary of
fn gen_reward(rng: &mut Rng, near: U256) -> U256 {
    match rng.below(10) {
        0 => U256::from(1u8),
        1 => U256::MAX - near,                                   // lands exactly on MAX
        2 => (U256::MAX - near).saturating_add(U256::from(1u8)), // first overflowing amount
        3 => U256::MAX,
        4 => U256::from(u128::MAX),
        5 => U256::ZERO, // never produced by `defer()`, still a value of the type
        6 => gen_u256(rng),
        _ => U256::from(rng.range(1, 50)),
    }
}

fn gen_jflags(rng: &mut Rng) -> u8 {
    match rng.below(8) {
        0 => 0,              // merely loaded
        1 => 1,              // touched
        2 => 1 | 2,          // created
        3 => 1 | 4,          // selfdestructed
        4 => 1 | 8,          // touched, loaded as not existing
        5 => 8,              // loaded as not existing only
        6 => 1 | 2 | 4,      // created and destroyed
        _ => rng.below(16) as u8,
    }
}

fn gen_jacct(rng: &mut Rng) -> (u8, Acct) {
    let flags = gen_jflags(rng);
    let info = if rng.chance(1, 3) {
        Acct { bal: U256::ZERO, nonce: 0, code: rng.below(2) as u8 }
    } else {
        gen_acct(rng)
    };
    (flags, info)
}

// ------------------------------------------------------------------------------- hist cases

fn hist_case(rng: &mut Rng, inp: &mut String, out: &mut String) {
    let n = match rng.below(12) {
        0 => 0,
        1 => 1,
        _ => rng.range(2, 6) as usize,
    };
    let anchor = gen_oacct(rng);
    let ben = BenV::new(BEN, anchor.as_ref().map(Acct::info), n);
    write!(inp, "hist {n:x} {}", show_oacct(&anchor)).unwrap();
    let len = rng.range(1, 28);
    let mut cur_inc = vec![0usize; n + 2];
    let mut last_read: Vec<Option<Vec<(usize, usize)>>> = vec![None; n + 2];
    // balance to aim overflowing rewards at
    let mut near = anchor.as_ref().map_or(U256::ZERO, |a| a.bal);
    for _ in 0..len {
        let in_range = |rng: &mut Rng| if n == 0 { 0 } else { rng.below(n as u64) as usize };
        // writer index: mostly inside the block, rarely just outside (panics)
        let wt = if rng.chance(1, 40) { n + rng.below(2) as usize } else { in_range(rng) };
        let pick_inc = |rng: &mut Rng, cur: usize| match rng.below(12) {
            0 => cur,                       // repeated
            1 => cur.saturating_sub(1),     // stale
            2 => 0,
            3 => usize::MAX,
            4 => cur + 2,
            _ => cur + 1,
        };
        let wi = pick_inc(rng, cur_inc[wt.min(n + 1)]);
        let accepted = |ok: Option<bool>, cur_inc: &mut Vec<usize>, out: &mut String| {
            match ok {
                None => out.push_str(" P"),
                Some(true) => {
                    out.push_str(" T");
                    cur_inc[wt.min(n + 1)] = wi;
                }
                Some(false) => out.push_str(" F"),
            }
        };
        match rng.below(100) {
            0..=34 => {
                // record_execution
                let k = rng.below(100);
                let mut state = EvmState::default();
                if rng.chance(1, 4) {
                    // unrelated accounts in the transaction state
                    state.insert(Address::with_last_byte(1), make_account(1, &gen_acct(rng)));
                }
                let (deferred, kind) = if k < 15 {
                    (None, "u".to_string())
                } else if k < 62 {
                    let r = gen_reward(rng, near);
                    (Some(r), format!("r{r:x}"))
                } else if k < 97 {
                    let (f, a) = gen_jacct(rng);
                    if f & 1 != 0 {
                        near = a.bal;
                    }
                    state.insert(BEN, make_account(f, &a));
                    (None, format!("j{f:x}/{}", a.show()))
                } else {
                    let r = gen_reward(rng, near);
                    let (f, a) = gen_jacct(rng);
                    state.insert(BEN, make_account(f, &a));
                    (Some(r), format!("b{r:x};{f:x}/{}", a.show()))
                };
                write!(inp, " x,{wt:x},{wi:x},{kind}").unwrap();
                let ok = caught(|| ben.record_execution(wt, wi, state, deferred));
                accepted(ok, &mut cur_inc, out);
            }
            35..=42 => {
                write!(inp, " e,{wt:x},{wi:x}").unwrap();
                let ok = caught(|| ben.record_estimate(wt, wi));
                accepted(ok, &mut cur_inc, out);
            }
            43..=57 => {
                // invalidate: mostly the current incarnation
                let ii = if rng.chance(2, 3) { cur_inc[wt.min(n + 1)] } else { wi };
                write!(inp, " i,{wt:x},{ii:x}").unwrap();
                match caught(|| ben.invalidate(wt, ii)) {
                    None => out.push_str(" P"),
                    Some(b) => out.push_str(if b { " T" } else { " F" }),
                }
            }
            58..=82 => {
                let t = if rng.chance(1, 40) { n + 1 } else { rng.below(n as u64 + 1) as usize };
                write!(inp, " q,{t:x}").unwrap();
                match caught(|| ben.resolve_before(t)) {
                    None => out.push_str(" P"),
                    Some(Err(k)) => write!(out, " E{k:x}").unwrap(),
                    Some(Ok((a, v))) => {
                        write!(out, " O{}[{}]", show_oinfo(a.as_ref()), show_versions(&v)).unwrap();
                        if let Some(a) = &a {
                            near = a.balance;
                        }
                        last_read[t.min(n + 1)] = Some(v);
                    }
                }
            }
            _ => {
                let t = if rng.chance(1, 40) { n + 1 } else { rng.below(n as u64 + 1) as usize };
                let mut exp = match (&last_read[t.min(n + 1)], rng.below(10)) {
                    (Some(v), 0..=6) => v.clone(),
                    (Some(v), 7) => {
                        // perturb the chain read earlier
                        let mut v = v.clone();
                        if !v.is_empty() {
                            let k = rng.below(v.len() as u64) as usize;
                            match rng.below(3) {
                                0 => v[k].1 = v[k].1.wrapping_add(1),
                                1 => {
                                    v.remove(k);
                                }
                                _ => v.truncate(k),
                            }
                        }
                        v
                    }
                    (_, 8) => Vec::new(),
                    _ => (0..t).rev().map(|k| (k, cur_inc[k.min(n + 1)])).collect(),
                };
                if rng.chance(1, 25) {
                    exp.push((rng.below(8) as usize, rng.below(4) as usize));
                }
                write!(inp, " v,{t:x},{}", show_versions(&exp)).unwrap();
                match caught(|| ben.validate(t, &exp)) {
                    None => out.push_str(" P"),
                    Some((ok, dep)) => write!(
                        out,
                        " V{},{}",
                        ok as u8,
                        dep.map_or("-".into(), |d| format!("{d:x}"))
                    )
                    .unwrap(),
                }
            }
        }
    }
    // glue: the aggregate filters by its own address
    if !ben.matches(BEN) || ben.matches(Address::with_last_byte(1)) {
        out.push_str(" X:matches");
    }
}

// ------------------------------------------------------------------------------- arith cases

#[derive(Clone, Debug)]
struct Env {
    spec: u8,
    feedis: bool,
    basefee: u64,
    tx_type: u8,
    price: u128,
    prio: Option<u128>,
    limit: u64,
    remaining: u64,
    refunded: i64,
    reservoir: u64,
}

impl Env {
    fn show(&self) -> String {
        let refunded = if self.refunded < 0 {
            format!("-{:x}", self.refunded.unsigned_abs())
        } else {
            format!("{:x}", self.refunded)
        };
        format!(
            "{:x},{} {:x} {:x},{:x},{} {:x},{:x},{},{:x}",
            self.spec,
            self.feedis as u8,
            self.basefee,
            self.tx_type,
            self.price,
            self.prio.map_or("-".into(), |p| format!("{p:x}")),
            self.limit,
            self.remaining,
            refunded,
            self.reservoir
        )
    }
    fn gas(&self) -> Gas {
        let mut g = Gas::new(self.limit);
        g.set_remaining(self.remaining);
        g.set_refund(self.refunded);
        g.set_reservoir(self.reservoir);
        g
    }
    fn cfg(&self) -> CfgEnv {
        let spec = SpecId::try_from_u8(self.spec).expect("spec id");
        CfgEnv::new_with_spec(spec).with_disable_fee_charge(self.feedis)
    }
    fn block(&self) -> BlockEnv {
        BlockEnv { beneficiary: BEN, basefee: self.basefee, ..Default::default() }
    }
    fn tx(&self) -> TxEnv {
        TxEnv { tx_type: self.tx_type, gas_price: self.price, gas_priority_fee: self.prio, ..Default::default() }
    }
}

fn gen_env(rng: &mut Rng) -> Env {
    let spec = rng.below(SpecId::AMSTERDAM as u64 + 1) as u8;
    let feedis = rng.chance(1, 12);
    if rng.chance(3, 5) {
        // the well-formed stream: what a real transaction's post-execution looks like
        let basefee = if rng.chance(1, 8) { 0 } else { rng.range(1, 1000) };
        let tx_type = *rng.pick(&[0u8, 0, 1, 2, 2, 2, 3, 4]);
        let b = basefee as u128;
        let price = match rng.below(6) {
            0 => b,
            1 => b.saturating_sub(rng.below(3) as u128), // at or below the base fee
            _ => b + rng.range(1, 500) as u128,
        };
        let prio = if tx_type < 2 {
            if rng.chance(1, 5) { Some(rng.below(50) as u128) } else { None }
        } else {
            match rng.below(5) {
                0 => Some(0),
                1 => None,
                2 => Some(price.saturating_sub(b)),
                _ => Some(rng.below(300) as u128),
            }
        };
        let limit = rng.range(21_000, 30_000_000);
        let remaining = if rng.chance(1, 10) { 0 } else { rng.below(limit - 20_000) };
        let spent = limit - remaining;
        let refunded = if rng.chance(1, 2) { 0 } else { rng.below(spent / 5 + 1) as i64 };
        let reservoir =
            if spec >= SpecId::AMSTERDAM as u8 && rng.chance(1, 2) { rng.below(spent / 2) } else { 0 };
        return Env { spec, feedis, basefee, tx_type, price, prio, limit, remaining, refunded, reservoir };
    }
    let basefee = match rng.below(8) {
        0 => 0,
        1 => u64::MAX,
        2 => rng.next(),
        _ => rng.range(1, 100),
    };
    let tx_type = match rng.below(10) {
        0..=2 => 0,
        3 => 1,
        4..=6 => 2,
        7 => 3,
        8 => 4,
        _ => *rng.pick(&[5u8, 0x7e, 0xff]),
    };
    let b = basefee as u128;
    let price = match rng.below(12) {
        0 => 0,
        1 => b,                       // exactly the base fee
        2 => b.saturating_sub(1),     // below the base fee
        3 => b + 1,
        4 => u128::MAX,
        5 => (1u128 << 64) + rng.below(3) as u128 - 1,
        6 => ((rng.next() as u128) << 64) | rng.next() as u128,
        _ => b + rng.below(200) as u128,
    };
    let prio = match rng.below(8) {
        0 => None,
        1 => Some(0),
        2 => Some(u128::MAX),
        3 => Some(price.saturating_sub(b)),
        4 => Some(price),
        _ => Some(rng.below(50) as u128),
    };
    let limit = match rng.below(8) {
        0 => 0,
        1 => u64::MAX,
        2 => rng.next(),
        _ => rng.range(21_000, 200_000),
    };
    let remaining = match rng.below(8) {
        0 => 0,
        1 => limit,
        2 => limit.wrapping_add(1), // more than the limit: spent saturates at zero
        3 => rng.next(),
        _ => rng.below(limit.max(1)),
    };
    let spent = limit.saturating_sub(remaining);
    let refunded = match rng.below(10) {
        0 => -1,
        1 => i64::MIN,
        2 => i64::MAX,
        3 => (spent / 5) as i64,
        4 => spent as i64,
        5 => rng.next() as i64,
        6 => rng.below(5000) as i64,
        _ => 0,
    };
    let reservoir = match rng.below(10) {
        0 => rng.below(spent.max(1)),
        1 => spent,
        2 => u64::MAX,
        3 => rng.below(100),
        _ => 0,
    };
    Env { spec, feedis, basefee, tx_type, price, prio, limit, remaining, refunded, reservoir }
}

type Db = CacheDB<EmptyDB>;

/// A database account: `CacheDB::insert_account_info` rewrites a zero code hash to KECCAK_EMPTY,
/// so the generator does it up front (code id 1 -> 0) to keep the case text equal to what is read.
fn gen_db_acct(rng: &mut Rng) -> Option<Acct> {
    gen_oacct(rng).map(|mut a| {
        if a.code == 1 {
            a.code = 0;
        }
        a
    })
}

fn make_db(db: &Option<Acct>) -> Db {
    let mut d = CacheDB::new(EmptyDB::default());
    if let Some(a) = db {
        d.insert_account_info(BEN, a.info());
    }
    d
}

fn gas_case(rng: &mut Rng, inp: &mut String, out: &mut String) {
    let env = gen_env(rng);
    let db = gen_db_acct(rng);
    write!(inp, "gas {} {}", env.show(), show_oacct(&db)).unwrap();
    let mut ctx = Context::mainnet().with_db(make_db(&db)).with_cfg(env.cfg()).with_block(env.block()).with_tx(env.tx());
    let gas = env.gas();
    let r = ben::from_gas(&ctx, &gas);
    post_execution::reward_beneficiary(&mut ctx, &gas).expect("CacheDB<EmptyDB> is infallible");
    let entry = ctx.journal().evm_state().get(&BEN).cloned();
    write!(out, " R{} H{}", r.map_or("-".into(), |r| format!("{r:x}")), show_jacct(entry.as_ref())).unwrap();
    // model-independent cross-check: from_gas is what revm's hook tried to credit
    let pre = db.as_ref().map_or(U256::ZERO, |a| a.bal);
    match (r, &entry) {
        (None, None) => {}
        (Some(r), Some(e)) => {
            if e.info.balance != pre.checked_add(r).unwrap_or(pre) || !e.is_touched() {
                out.push_str(" X:from_gas-differs-from-revm-hook");
            }
        }
        _ => out.push_str(" X:from_gas-presence-differs-from-revm-hook"),
    }
}

fn apply_case(rng: &mut Rng, inp: &mut String, out: &mut String) {
    let a = gen_db_acct(rng);
    let r = gen_reward(rng, a.as_ref().map_or(U256::ZERO, |a| a.bal));
    write!(inp, "apply {r:x} {}", show_oacct(&a)).unwrap();
    let res = ben::apply_to(r, a.as_ref().map(Acct::info));
    write!(out, " {}", show_info(&res)).unwrap();
    // model-independent cross-check against revm's journal: load_account_mut(..).incr_balance(r)
    let mut ctx = Context::mainnet().with_db(make_db(&a));
    {
        let mut acc = ctx.journal_mut().load_account_mut(BEN).expect("infallible");
        revm::context_interface::journaled_state::account::JournaledAccountTr::incr_balance(&mut acc.data, r);
    }
    let e = ctx.journal().evm_state().get(&BEN).expect("loaded").info.clone();
    if e != res {
        out.push_str(" X:apply_to-differs-from-revm-incr_balance");
    }
}

fn mode_case(rng: &mut Rng, inp: &mut String, out: &mut String) {
    let mut env = gen_env(rng);
    if rng.chance(1, 3) {
        // zero-reward transactions are the interesting boundary of the deferral rule
        match rng.below(3) {
            0 => env.price = if env.spec >= SpecId::LONDON as u8 { env.basefee as u128 } else { 0 },
            1 => env.remaining = env.limit,
            _ => env.prio = Some(0),
        }
    }
    let deferred = rng.chance(3, 4);
    let db = gen_db_acct(rng);
    let journal = if rng.chance(1, 2) { None } else { Some(gen_jacct(rng)) };
    write!(
        inp,
        "mode {} {} {} {}",
        if deferred { "D" } else { "I" },
        env.show(),
        show_oacct(&db),
        journal.as_ref().map_or("-".into(), |(f, a)| format!("{f:x}/{}", a.show()))
    )
    .unwrap();
    let ctx = Context::mainnet().with_db(make_db(&db)).with_cfg(env.cfg()).with_block(env.block()).with_tx(env.tx());
    let mut evm = ctx.build_mainnet();
    if let Some((f, a)) = &journal {
        evm.ctx.journal_mut().evm_state_mut().insert(BEN, make_account(*f, a));
    }
    let mut frame = FrameResult::Call(CallOutcome::new(
        InterpreterResult::new(InstructionResult::Stop, Bytes::new(), env.gas()),
        0..0,
    ));
    let d = caught(|| {
        ben::mode_apply::<_, EVMError<Infallible, InvalidTransaction>>(deferred, &mut evm, &mut frame)
            .expect("CacheDB<EmptyDB> is infallible")
    });
    let Some(d) = d else {
        // the real code panicked (the model never does on these inputs)
        out.push_str(" P X:mode-apply-panicked");
        return;
    };
    let j = evm.ctx.journal().evm_state().get(&BEN).cloned();
    let state = evm.ctx.journal_mut().finalize();
    let f = state.get(&BEN).cloned();
    let c = f.as_ref().map_or("-".to_string(), |f| match ben::classify(f) {
        (k @ (0 | 1), _) => format!("{k}"),
        (k, i) => format!("{k}:{}", show_oinfo(i.as_ref())),
    });
    // publish into a one-transaction history anchored at the database value and read it back
    let e = caught(|| {
        let h = BenV::new(BEN, db.as_ref().map(Acct::info), 1);
        h.record_execution(0, 1, state, d);
        h.resolve_before(1)
    });
    let e = match e {
        None => "P".to_string(),
        Some(Err(k)) => format!("E{k:x}"),
        Some(Ok((a, v))) => format!("O{}[{}]", show_oinfo(a.as_ref()), show_versions(&v)),
    };
    write!(
        out,
        " D{} J{} F{} C{} E{}",
        d.map_or("-".into(), |d| format!("{d:x}")),
        show_jacct(j.as_ref()),
        show_jacct(f.as_ref()),
        c,
        e
    )
    .unwrap();
    // model-independent cross-check: the same transaction end through revm's own hook
    // (immediate mode), finalized and classified by the real code, must commit what the deferred
    // path commits
    {
        let ctx = Context::mainnet().with_db(make_db(&db)).with_cfg(env.cfg()).with_block(env.block()).with_tx(env.tx());
        let mut evm_i = ctx.build_mainnet();
        if let Some((f, a)) = &journal {
            evm_i.ctx.journal_mut().evm_state_mut().insert(BEN, make_account(*f, a));
        }
        let mut frame_i = FrameResult::Call(CallOutcome::new(
            InterpreterResult::new(InstructionResult::Stop, Bytes::new(), env.gas()),
            0..0,
        ));
        let di = ben::mode_apply::<_, EVMError<Infallible, InvalidTransaction>>(false, &mut evm_i, &mut frame_i)
            .expect("infallible");
        let state_i = evm_i.ctx.journal_mut().finalize();
        let fi = state_i.get(&BEN);
        if di.is_some() {
            out.push_str(" X:immediate-mode-deferred");
        }
        match d {
            None => {
                if show_jacct(fi) != show_jacct(f.as_ref()) {
                    out.push_str(" X:settled-deferred-mode-differs-from-immediate");
                }
            }
            Some(r) => {
                let want = ben::apply_to(r, db.as_ref().map(Acct::info));
                let ok = f.is_none()
                    && matches!(fi.map(ben::classify), Some((3, Some(ref i))) if *i == want);
                if !ok {
                    out.push_str(" X:deferred-credit-differs-from-immediate");
                }
            }
        }
    }
    // model-independent cross-check of the deferral rule itself
    if let Some(d) = d {
        if d.is_zero() {
            out.push_str(" X:zero-reward-deferred");
        }
        if journal.is_some() {
            out.push_str(" X:deferred-although-beneficiary-in-journal");
        }
        if !deferred {
            out.push_str(" X:immediate-mode-deferred");
        }
    }
}

// ------------------------------------------------------------------------------- block cases

/// Whole blocks through the real `Scheduler` (parallel: deferred rewards folded at ordered commit;
/// forced sequential: immediate mode) against in-order stock revm (`e2e::oracle`). No model is
/// involved: any difference is a concrete failing input for the property itself.
fn block_case(rng: &mut Rng, inp: &mut String, out: &mut String, emit: &mut dyn FnMut(&str)) {
    use revm_primitives::TxKind;
    use verif_harness::e2e::{self, BlockSpec, RunCfg};
    let n_txs = rng.range(1, 10) as usize;
    let n_eoa = n_txs + 2;
    let mut world = e2e::make_world(n_eoa, rng);
    let specs = [
        SpecId::HOMESTEAD, SpecId::TANGERINE, SpecId::SPURIOUS_DRAGON, SpecId::BYZANTIUM, SpecId::ISTANBUL,
        SpecId::BERLIN, SpecId::LONDON, SpecId::MERGE, SpecId::SHANGHAI, SpecId::CANCUN, SpecId::PRAGUE,
        SpecId::OSAKA,
    ];
    let spec = if rng.chance(1, 2) { SpecId::CANCUN } else { *rng.pick(&specs) };
    let london = spec >= SpecId::LONDON;
    let basefee = if london { rng.below(4) } else { 0 };
    // role of the fee recipient
    let fresh = Address::with_last_byte(0xCB);
    let role = rng.below(9);
    let beneficiary = match role {
        0 => fresh,                  // absent
        1 => {
            // present, one or two credits away from U256::MAX
            world.db.accounts.insert(fresh, AccountInfo { balance: U256::MAX - U256::from(rng.below(60_000)), ..Default::default() });
            fresh
        }
        2 => {
            // an existing empty account
            world.db.accounts.insert(fresh, AccountInfo::default());
            fresh
        }
        3 => e2e::eoa(0),            // a sender
        4 => e2e::eoa(n_eoa - 1),    // a plain recipient
        5 => world.mix,              // a contract with storage
        6 => world.victims[0],       // self-destructs in the block
        7 => world.forward,
        _ => e2e::MINER,
    };
    let mut nonces = std::collections::HashMap::<Address, u64>::new();
    let (mut txs, mut descr) = (Vec::new(), Vec::new());
    for i in 0..n_txs {
        let caller = if role == 3 && rng.chance(1, 3) { e2e::eoa(0) } else { e2e::eoa(1 + i) };
        let nonce = *nonces.get(&caller).unwrap_or(&0);
        nonces.insert(caller, nonce + 1);
        // fee: zero tip (price == base fee), small tip, or larger
        let tip = match rng.below(5) {
            0 | 1 => 0u128,
            2 => 1,
            3 => rng.below(5) as u128,
            _ => 1_000_000_007,
        };
        let mut tx = TxEnv { caller, gas_limit: 300_000, gas_price: basefee as u128 + tip, nonce, ..Default::default() };
        let mut d = String::new();
        if london && rng.chance(1, 2) {
            tx.tx_type = 2;
            tx.gas_price = basefee as u128 + tip + rng.below(3) as u128; // fee cap above what is paid
            tx.gas_priority_fee = Some(tip);
            d.push_str("1559 ");
        }
        match rng.below(100) {
            0..=24 => {
                tx.kind = TxKind::Call(beneficiary);
                tx.value = U256::from(rng.below(1000));
                d.push_str("pay-beneficiary");
            }
            25..=39 => {
                tx.kind = TxKind::Call(world.probe);
                tx.data = Bytes::from(e2e::addr_word(beneficiary).to_vec());
                d.push_str("probe-beneficiary");
            }
            40..=54 => {
                tx.kind = TxKind::Call(world.cbprobe);
                d.push_str("coinbase-probe");
            }
            55..=64 => {
                tx.kind = TxKind::Call(world.forward);
                tx.value = U256::from(rng.below(50));
                tx.data = Bytes::from(e2e::addr_word(beneficiary).to_vec());
                d.push_str("forward-to-beneficiary");
            }
            65..=74 => {
                let v = world.victims[rng.below(2) as usize];
                tx.kind = TxKind::Call(v);
                d.push_str(&format!("selfdestruct {v:x}"));
            }
            75..=84 => {
                let (a, b) = (rng.below(4), rng.below(4));
                let mut data = Vec::new();
                data.extend_from_slice(&e2e::word(a));
                data.extend_from_slice(&e2e::word(b));
                data.extend_from_slice(&e2e::word(0));
                tx.kind = TxKind::Call(world.mix);
                tx.data = Bytes::from(data);
                d.push_str("mix");
            }
            _ => {
                let to = e2e::eoa(rng.below(n_eoa as u64) as usize);
                tx.kind = TxKind::Call(to);
                tx.value = U256::from(rng.below(1000));
                tx.gas_limit = 21_000;
                d.push_str(&format!("transfer to {to:x}"));
            }
        }
        write!(d, " tip={tip} from={caller:x}").unwrap();
        txs.push(tx);
        descr.push(d);
    }
    let block = BlockSpec { spec, disable_nonce_check: false, basefee, beneficiary, txs, descr };
    write!(inp, "block spec={:?} basefee={} role={} n={} [{}]", spec, basefee, role, n_txs, block.descr.join("; ")).unwrap();
    emit(inp);
    let oracle = e2e::oracle(&world.db, &block);
    let mut diffs = Vec::new();
    let workers = rng.range(2, 4) as usize;
    for rc in [
        RunCfg { workers, ..Default::default() },
        RunCfg { workers, force_sequential: true, ..Default::default() },
    ] {
        let run = e2e::run_grevm(world.db.clone_data(), &block, &rc, None, 0);
        for df in e2e::compare(&oracle, &run.result) {
            diffs.push(format!("{}: {df}", if rc.force_sequential { "sequential" } else { "parallel" }));
        }
    }
    if diffs.is_empty() {
        write!(out, " OK ben-before-last={}", oracle.ben_before.last().cloned().unwrap_or_default()).unwrap();
    } else {
        write!(out, " X:block-differs-from-in-order-revm {}", diffs.join(" | ").replace('\n', " ")).unwrap();
    }
}

fn main() {
    let a: Vec<String> = std::env::args().collect();
    let (kind, seed, count, outdir) = (&a[1], a[2].parse::<u64>().unwrap(), a[3].parse::<u64>().unwrap(), &a[4]);
    std::panic::set_hook(Box::new(|_| {})); // expected panics (asserts of the real code) stay quiet
    let mut rng = Rng::new(seed ^ 0xC07);
    let (mut inp, mut out) = (String::new(), String::new());
    fs::create_dir_all(outdir).unwrap();
    if kind == "block" {
        // written case by case so that a run that never returns leaves its input behind
        use std::io::Write as _;
        let mut fi = fs::File::create(format!("{outdir}/ben_block.in")).unwrap();
        let mut fo = fs::File::create(format!("{outdir}/ben_block.impl")).unwrap();
        // a block on which the scheduler never returns must not depend on how loaded the machine is:
        // the verdict is "no case finished for 60 s" (a case takes milliseconds), reported in the
        // result file; the caller's overall time limit only truncates the sample
        let progress = std::sync::Arc::new(std::sync::atomic::AtomicU64::new(0));
        {
            let progress = progress.clone();
            let path = format!("{outdir}/ben_block.impl");
            std::thread::spawn(move || {
                let mut last = (u64::MAX, std::time::Instant::now());
                loop {
                    std::thread::sleep(std::time::Duration::from_millis(500));
                    let cur = progress.load(std::sync::atomic::Ordering::SeqCst);
                    if cur != last.0 {
                        last = (cur, std::time::Instant::now());
                    } else if last.1.elapsed() > std::time::Duration::from_secs(60) {
                        let mut f = fs::OpenOptions::new().append(true).open(&path).unwrap();
                        writeln!(f, " X:scheduler-did-not-return-on-this-block").unwrap();
                        std::process::exit(0);
                    }
                }
            });
        }
        for case_no in 0..count {
            progress.store(case_no, std::sync::atomic::Ordering::SeqCst);
            let mut case_rng = rng.fork();
            let (mut inp, mut out) = (String::new(), String::new());
            // the input line is complete before the block runs
            block_case(&mut case_rng, &mut inp, &mut out, &mut |line: &str| {
                writeln!(fi, "{line}").unwrap();
                fi.flush().unwrap();
            });
            writeln!(fo, "{out}").unwrap();
            fo.flush().unwrap();
        }
        return;
    }
    for n in 0..count {
        let mut case_rng = rng.fork();
        match kind.as_str() {
            "hist" => hist_case(&mut case_rng, &mut inp, &mut out),
            "arith" => match n % 5 {
                0 | 1 => gas_case(&mut case_rng, &mut inp, &mut out),
                2 => apply_case(&mut case_rng, &mut inp, &mut out),
                _ => mode_case(&mut case_rng, &mut inp, &mut out),
            },
            k => {
                eprintln!("unknown kind {k}");
                std::process::exit(2)
            }
        }
        inp.push('\n');
        out.push('\n');
    }
    fs::create_dir_all(outdir).unwrap();
    fs::write(format!("{outdir}/ben_{kind}.in"), inp).unwrap();
    fs::write(format!("{outdir}/ben_{kind}.impl"), out).unwrap();
}
