//! C10 - three-way differential for the state cache: REAL grevm `ParallelState` vs REAL
//! `revm_database::State` (driven through its `Database` interface) vs the extracted Coq models
//! (coq/Cache/{Par,Revm}.v, run by ocaml/cache_drv.ml on the `.in` file written here).
//!
//! usage:
//!   cache gen <seed> <count> <outdir>     generate <count> histories, run both implementations
//!   cache run <file.in> <outdir>          run the histories of an existing .in file (replay)
//!   cache f1 [rounds]                     deterministic reproduction of finding F1 (see `f1` below)
//!
//! Files written to <outdir> (one line per case in each):
//!   cache.in     the history (database, operations, dump universe) - input of the model driver
//!   cache.par    what the real ParallelState returned:  `<op outputs> | <cache dump>`
//!   cache.revm   what the real revm State returned, same format
//!   cache.parb / cache.revmb   canonical digests of every extracted bundle (+ final bundle)
//!   cache.flags  per case: BEQ (two-phase builder == revm loop, order-sensitive, on the very
//!                TransitionState/BundleState of each merge), OBS (observed and unobserved runs
//!                agree), WF (the history satisfies the hypotheses of `par_simulates_revm`)
//! Every random choice derives from <seed>.
use grevm::{ParallelBundleState, ParallelState, ParallelTakeBundle, verif::cache as vc};
use revm::{Database, DatabaseCommit, DatabaseRef, database_interface::DatabaseCommitExt};
use revm_database::{
    AccountRevert, AccountStatus as DbStatus, BundleAccount, BundleState, RevertToSlot, State,
    TransitionAccount, TransitionState,
    states::{bundle_state::BundleRetention, reverts::AccountInfoRevert},
};
use revm_primitives::{Address, B256, Bytes, KECCAK_EMPTY, U256};
use revm_state::{Account, AccountInfo, AccountStatus as EvmFlags, Bytecode, EvmState, EvmStorageSlot};
use std::{
    collections::{BTreeMap, BTreeSet, HashMap},
    convert::Infallible,
    fmt::Write as _,
    fs,
    panic::{AssertUnwindSafe, catch_unwind},
    sync::{Arc, Condvar, Mutex},
};
use verif_harness::rng::Rng;

// ------------------------------------------------------------------------------------ encodings

fn addr(a: u64) -> Address {
    let mut b = [0u8; 20];
    b[12..].copy_from_slice(&a.to_be_bytes());
    Address::from(b)
}
fn addr_id(a: &Address) -> u64 {
    u64::from_be_bytes(a.0[12..20].try_into().unwrap())
}
/// hash ids: 0 = B256::ZERO, 1 = KECCAK_EMPTY, n >= 2 = the 32-byte big-endian encoding of n
fn hash(h: u64) -> B256 {
    match h {
        0 => B256::ZERO,
        1 => KECCAK_EMPTY,
        n => B256::from(U256::from(n)),
    }
}
fn hash_id(h: &B256) -> u64 {
    if *h == KECCAK_EMPTY {
        1
    } else {
        u64::from_be_bytes(h.0[24..32].try_into().unwrap())
    }
}
/// code ids: 0 = Bytecode::default(), c >= 1 = raw bytes [0x5b, c_hi, c_lo]
fn code(c: u64) -> Bytecode {
    if c == 0 {
        Bytecode::default()
    } else {
        Bytecode::new_raw(Bytes::from(vec![0x5b, (c >> 8) as u8, c as u8]))
    }
}
fn code_id(c: &Bytecode) -> u64 {
    if *c == Bytecode::default() {
        return 0;
    }
    let b = c.original_bytes();
    if b.len() == 3 && b[0] == 0x5b { ((b[1] as u64) << 8) | b[2] as u64 } else { 0xffff }
}

#[derive(Clone, Debug, PartialEq)]
struct InfoT {
    bal: U256,
    nonce: u64,
    hash: u64,
    code: Option<u64>,
}
impl InfoT {
    fn default_info() -> Self {
        InfoT { bal: U256::ZERO, nonce: 0, hash: 1, code: Some(0) }
    }
    fn is_empty(&self) -> bool {
        self.hash <= 1 && self.bal.is_zero() && self.nonce == 0
    }
    fn real(&self) -> AccountInfo {
        AccountInfo {
            balance: self.bal,
            nonce: self.nonce,
            code_hash: hash(self.hash),
            account_id: None,
            code: self.code.map(code),
        }
    }
    fn tok(&self) -> String {
        format!(
            "{:x}.{:x}.{:x}.{}",
            self.bal,
            self.nonce,
            self.hash,
            self.code.map_or("-".to_owned(), |c| format!("{c:x}"))
        )
    }
    fn parse(s: &str) -> Option<Self> {
        if s == "-" {
            return None;
        }
        let p: Vec<&str> = s.split('.').collect();
        Some(InfoT {
            bal: U256::from_str_radix(p[0], 16).unwrap(),
            nonce: u64::from_str_radix(p[1], 16).unwrap(),
            hash: u64::from_str_radix(p[2], 16).unwrap(),
            code: if p[3] == "-" { None } else { Some(u64::from_str_radix(p[3], 16).unwrap()) },
        })
    }
}
fn info_tok(i: Option<&AccountInfo>) -> String {
    match i {
        None => "-".to_owned(),
        Some(i) => format!(
            "{:x}.{:x}.{:x}.{}",
            i.balance,
            i.nonce,
            hash_id(&i.code_hash),
            i.code.as_ref().map_or("-".to_owned(), |c| format!("{:x}", code_id(c)))
        ),
    }
}
fn status_tok(s: DbStatus) -> &'static str {
    match s {
        DbStatus::LoadedNotExisting => "LNE",
        DbStatus::Loaded => "L",
        DbStatus::LoadedEmptyEIP161 => "LEE",
        DbStatus::InMemoryChange => "IMC",
        DbStatus::Changed => "C",
        DbStatus::Destroyed => "D",
        DbStatus::DestroyedChanged => "DC",
        DbStatus::DestroyedAgain => "DA",
    }
}
fn trans_tok(t: &TransitionAccount) -> String {
    let slots: BTreeMap<U256, (U256, U256)> =
        t.storage.iter().map(|(k, s)| (*k, (s.previous_or_original_value, s.present_value))).collect();
    format!(
        "{}/{}/{}/{}/{}/{{{}}}",
        info_tok(t.info.as_ref()),
        status_tok(t.status),
        info_tok(t.previous_info.as_ref()),
        status_tok(t.previous_status),
        t.storage_was_destroyed as u8,
        slots.iter().map(|(k, (o, p))| format!("{k:x}={o:x}>{p:x}")).collect::<Vec<_>>().join(";")
    )
}
fn translist_tok<'a>(it: impl Iterator<Item = (&'a Address, &'a TransitionAccount)>) -> String {
    let m: BTreeMap<u64, String> = it.map(|(a, t)| (addr_id(a), trans_tok(t))).collect();
    format!("[{}]", m.iter().map(|(a, t)| format!("{a:x}:{t}")).collect::<Vec<_>>().join(","))
}

fn revert_tok(r: &AccountRevert) -> String {
    let acct = match &r.account {
        AccountInfoRevert::DoNothing => "N".to_owned(),
        AccountInfoRevert::DeleteIt => "X".to_owned(),
        AccountInfoRevert::RevertTo(i) => format!("R{}", info_tok(Some(i))),
    };
    let slots: BTreeMap<U256, String> = r
        .storage
        .iter()
        .map(|(k, v)| {
            (*k, match v {
                RevertToSlot::Some(v) => format!("S{v:x}"),
                RevertToSlot::Destroyed => "D".to_owned(),
            })
        })
        .collect();
    format!(
        "{acct}/{}/{}/{{{}}}",
        status_tok(r.previous_status),
        r.wipe_storage as u8,
        slots.iter().map(|(k, v)| format!("{k:x}={v}")).collect::<Vec<_>>().join(";")
    )
}
fn bundle_account_tok(b: &BundleAccount) -> String {
    let slots: BTreeMap<U256, (U256, U256)> =
        b.storage.iter().map(|(k, s)| (*k, (s.previous_or_original_value, s.present_value))).collect();
    format!(
        "{}/{}/{}/{{{}}}",
        info_tok(b.info.as_ref()),
        info_tok(b.original_info.as_ref()),
        status_tok(b.status),
        slots.iter().map(|(k, (o, p))| format!("{k:x}={o:x}>{p:x}")).collect::<Vec<_>>().join(";")
    )
}
/// Canonical digest of a BundleState: maps sorted, each reverts block sorted by address
/// (`reverts` is documented as unsorted; the order-sensitive comparison is the BEQ flag).
fn bundle_tok(b: &BundleState) -> String {
    let st: BTreeMap<u64, String> = b.state.iter().map(|(a, x)| (addr_id(a), bundle_account_tok(x))).collect();
    let cs: BTreeMap<u64, u64> = b.contracts.iter().map(|(h, c)| (hash_id(h), code_id(c))).collect();
    let mut s = String::from("B{state[");
    s.push_str(&st.iter().map(|(a, x)| format!("{a:x}:{x}")).collect::<Vec<_>>().join(","));
    s.push_str("]contracts[");
    s.push_str(&cs.iter().map(|(h, c)| format!("{h:x}={c:x}")).collect::<Vec<_>>().join(","));
    s.push_str("]reverts[");
    for blk in b.reverts.iter() {
        let m: BTreeMap<u64, String> = blk.iter().map(|(a, r)| (addr_id(a), revert_tok(r))).collect();
        s.push('[');
        s.push_str(&m.iter().map(|(a, r)| format!("{a:x}:{r}")).collect::<Vec<_>>().join(","));
        s.push(']');
    }
    write!(s, "]ss={}rs={}hint={}}}", b.state_size, b.reverts_size, b.size_hint()).unwrap();
    s
}

// ------------------------------------------------------------------------------------ database

#[derive(Clone, Default, Debug)]
struct MemDb {
    basic: HashMap<Address, AccountInfo>,
    storage: HashMap<(Address, U256), U256>,
    codes: HashMap<B256, Bytecode>,
}
impl DatabaseRef for MemDb {
    type Error = Infallible;
    fn basic_ref(&self, a: Address) -> Result<Option<AccountInfo>, Infallible> {
        Ok(self.basic.get(&a).cloned())
    }
    fn code_by_hash_ref(&self, h: B256) -> Result<Bytecode, Infallible> {
        Ok(self.codes.get(&h).cloned().unwrap_or_default())
    }
    fn storage_ref(&self, a: Address, k: U256) -> Result<U256, Infallible> {
        Ok(self.storage.get(&(a, k)).copied().unwrap_or_default())
    }
    fn block_hash_ref(&self, _n: u64) -> Result<B256, Infallible> {
        Ok(B256::ZERO)
    }
}
impl Database for MemDb {
    type Error = Infallible;
    fn basic(&mut self, a: Address) -> Result<Option<AccountInfo>, Infallible> {
        self.basic_ref(a)
    }
    fn code_by_hash(&mut self, h: B256) -> Result<Bytecode, Infallible> {
        self.code_by_hash_ref(h)
    }
    fn storage(&mut self, a: Address, k: U256) -> Result<U256, Infallible> {
        self.storage_ref(a, k)
    }
    fn block_hash(&mut self, n: u64) -> Result<B256, Infallible> {
        self.block_hash_ref(n)
    }
}

// ------------------------------------------------------------------------------------ histories

#[derive(Clone, Debug)]
struct EAcc {
    a: u64,
    flags: u8, // 1 touched, 2 created, 4 selfdestructed, 8 loaded-as-not-existing
    info: InfoT,
    orig: InfoT,
    slots: Vec<(U256, U256, U256)>, // key, original, present
}
#[derive(Clone, Debug)]
enum OpT {
    Commit { split: bool, accts: Vec<EAcc> },
    Incr(Vec<(u64, u128)>),
    Drain(Vec<u64>),
    Basic { a: u64, via: bool },
    Storage { a: u64, k: U256, via: bool },
    Code { h: u64, via: bool },
    Merge(bool),
    ParTake(bool),
    Take,
    Inject,
}
#[derive(Clone, Debug, Default)]
struct Case {
    bu: bool,
    db: Vec<(u64, Option<InfoT>, Vec<(U256, U256)>)>,
    codes: Vec<(u64, u64)>,
    ops: Vec<OpT>,
    uni_addrs: Vec<u64>,
    uni_slots: Vec<(u64, U256)>,
    uni_hashes: Vec<u64>,
}

impl Case {
    fn line(&self) -> String {
        let mut s = format!("case {} {}", self.bu as u8, self.db.len());
        for (a, i, st) in &self.db {
            write!(s, " {a:x} {} {}", i.as_ref().map_or("-".to_owned(), InfoT::tok), st.len()).unwrap();
            for (k, v) in st {
                write!(s, " {k:x} {v:x}").unwrap();
            }
        }
        write!(s, " {}", self.codes.len()).unwrap();
        for (h, c) in &self.codes {
            write!(s, " {h:x} {c:x}").unwrap();
        }
        write!(s, " {}", self.ops.len()).unwrap();
        for o in &self.ops {
            match o {
                OpT::Commit { split, accts } => {
                    write!(s, " {} {}", if *split { "C" } else { "c" }, accts.len()).unwrap();
                    for e in accts {
                        write!(s, " {:x} {:x} {} {} {}", e.a, e.flags, e.info.tok(), e.orig.tok(), e.slots.len()).unwrap();
                        for (k, o, p) in &e.slots {
                            write!(s, " {k:x} {o:x} {p:x}").unwrap();
                        }
                    }
                }
                OpT::Incr(v) => {
                    write!(s, " i {}", v.len()).unwrap();
                    for (a, x) in v {
                        write!(s, " {a:x} {x:x}").unwrap();
                    }
                }
                OpT::Drain(v) => {
                    write!(s, " d {}", v.len()).unwrap();
                    for a in v {
                        write!(s, " {a:x}").unwrap();
                    }
                }
                OpT::Basic { a, via } => write!(s, " {} {a:x}", if *via { "B" } else { "b" }).unwrap(),
                OpT::Storage { a, k, via } => write!(s, " {} {a:x} {k:x}", if *via { "S" } else { "s" }).unwrap(),
                OpT::Code { h, via } => write!(s, " {} {h:x}", if *via { "H" } else { "h" }).unwrap(),
                OpT::Merge(r) => write!(s, " m {}", *r as u8).unwrap(),
                OpT::ParTake(r) => write!(s, " p {}", *r as u8).unwrap(),
                OpT::Take => s.push_str(" t"),
                OpT::Inject => s.push_str(" j"),
            }
        }
        write!(s, " U {}", self.uni_addrs.len()).unwrap();
        for a in &self.uni_addrs {
            write!(s, " {a:x}").unwrap();
        }
        write!(s, " {}", self.uni_slots.len()).unwrap();
        for (a, k) in &self.uni_slots {
            write!(s, " {a:x} {k:x}").unwrap();
        }
        write!(s, " {}", self.uni_hashes.len()).unwrap();
        for h in &self.uni_hashes {
            write!(s, " {h:x}").unwrap();
        }
        s
    }

    fn parse(line: &str) -> Case {
        let t: Vec<&str> = line.split_whitespace().collect();
        let mut p = 1usize;
        let mut next = || {
            p += 1;
            t[p - 1]
        };
        let hx = |s: &str| u64::from_str_radix(s, 16).unwrap();
        let ux = |s: &str| U256::from_str_radix(s, 16).unwrap();
        let mut c = Case { bu: next() == "1", ..Default::default() };
        let ndb: usize = next().parse().unwrap();
        for _ in 0..ndb {
            let a = hx(next());
            let i = InfoT::parse(next());
            let ns: usize = next().parse().unwrap();
            let st = (0..ns).map(|_| (ux(next()), ux(next()))).collect();
            c.db.push((a, i, st));
        }
        let nc: usize = next().parse().unwrap();
        for _ in 0..nc {
            c.codes.push((hx(next()), hx(next())));
        }
        let nops: usize = next().parse().unwrap();
        for _ in 0..nops {
            let k = next();
            let op = match k {
                "c" | "C" => {
                    let n: usize = next().parse().unwrap();
                    let mut accts = Vec::new();
                    for _ in 0..n {
                        let a = hx(next());
                        let flags = hx(next()) as u8;
                        let info = InfoT::parse(next()).unwrap();
                        let orig = InfoT::parse(next()).unwrap();
                        let ns: usize = next().parse().unwrap();
                        let slots = (0..ns).map(|_| (ux(next()), ux(next()), ux(next()))).collect();
                        accts.push(EAcc { a, flags, info, orig, slots });
                    }
                    OpT::Commit { split: k == "C", accts }
                }
                "i" => {
                    let n: usize = next().parse().unwrap();
                    OpT::Incr((0..n).map(|_| (hx(next()), u128::from_str_radix(next(), 16).unwrap())).collect())
                }
                "d" => {
                    let n: usize = next().parse().unwrap();
                    OpT::Drain((0..n).map(|_| hx(next())).collect())
                }
                "b" | "B" => OpT::Basic { a: hx(next()), via: k == "B" },
                "s" | "S" => OpT::Storage { a: hx(next()), k: ux(next()), via: k == "S" },
                "h" | "H" => OpT::Code { h: hx(next()), via: k == "H" },
                "m" => OpT::Merge(next() == "1"),
                "p" => OpT::ParTake(next() == "1"),
                "t" => OpT::Take,
                "j" => OpT::Inject,
                x => panic!("bad op {x}"),
            };
            c.ops.push(op);
        }
        assert_eq!(next(), "U");
        let na: usize = next().parse().unwrap();
        c.uni_addrs = (0..na).map(|_| hx(next())).collect();
        let ns: usize = next().parse().unwrap();
        c.uni_slots = (0..ns).map(|_| (hx(next()), ux(next()))).collect();
        let nh: usize = next().parse().unwrap();
        c.uni_hashes = (0..nh).map(|_| hx(next())).collect();
        c
    }

    fn memdb(&self) -> MemDb {
        let mut d = MemDb::default();
        for (a, i, st) in &self.db {
            if let Some(i) = i {
                d.basic.insert(addr(*a), i.real());
            }
            for (k, v) in st {
                d.storage.insert((addr(*a), *k), *v);
            }
        }
        for (h, c) in &self.codes {
            d.codes.insert(hash(*h), code(*c));
        }
        d
    }

    /// The hypotheses of `par_simulates_revm` that concern the input (DESIGN / coq/Props/C10.v):
    /// db_wf (an account that does not exist, is empty, or has neither code nor nonce has no
    /// storage in the database) and code consistency (code carried by a created account is what
    /// the database serves for that hash, when it serves one).
    fn well_formed(&self) -> bool {
        for (_, i, st) in &self.db {
            let bare = match i {
                None => true,
                Some(i) => i.is_empty() || (i.hash == 1 && i.nonce == 0),
            };
            if bare && st.iter().any(|(_, v)| !v.is_zero()) {
                return false;
            }
        }
        let codes: HashMap<u64, u64> = self.codes.iter().copied().collect();
        let mut cached: BTreeSet<u64> = BTreeSet::new();
        for o in &self.ops {
            match o {
                OpT::Basic { a, .. } => {
                    cached.insert(*a);
                }
                OpT::Incr(v) => v.iter().for_each(|(a, _)| {
                    cached.insert(*a);
                }),
                OpT::Drain(v) => v.iter().for_each(|a| {
                    cached.insert(*a);
                }),
                _ => {}
            }
            if let OpT::Commit { accts, .. } = o {
                for e in accts {
                    // grevm requires the journal to have loaded every touched account (PS:291)
                    if e.flags & 1 != 0 && !cached.contains(&e.a) {
                        return false;
                    }
                    if e.flags & 1 != 0 && e.flags & 2 != 0 && e.flags & 4 == 0 {
                        match e.info.code {
                            Some(c) if codes.get(&e.info.hash).copied().unwrap_or(0) == c => {}
                            _ => return false,
                        }
                    }
                }
            }
        }
        true
    }
}

fn evm_state(accts: &[EAcc]) -> EvmState {
    let mut m = EvmState::default();
    for e in accts {
        let mut acc = Account::default();
        acc.info = e.info.real();
        *acc.original_info_mut() = e.orig.real();
        let mut fl = EvmFlags::empty();
        if e.flags & 1 != 0 {
            fl |= EvmFlags::Touched;
        }
        if e.flags & 2 != 0 {
            fl |= EvmFlags::Created;
        }
        if e.flags & 4 != 0 {
            fl |= EvmFlags::SelfDestructed;
        }
        if e.flags & 8 != 0 {
            fl |= EvmFlags::LoadedAsNotExisting;
        }
        acc.status = fl;
        for (k, o, p) in &e.slots {
            let mut slot = EvmStorageSlot::new(*o, Default::default());
            slot.present_value = *p;
            acc.storage.insert(*k, slot);
        }
        m.insert(addr(e.a), acc);
    }
    m
}

// ------------------------------------------------------------------------------------ generator

const KEYS: [u64; 4] = [0, 1, 2, 5];
fn gen_key(r: &mut Rng) -> U256 {
    if r.chance(1, 12) { U256::MAX } else { U256::from(*r.pick(&KEYS)) }
}
fn gen_val(r: &mut Rng) -> U256 {
    match r.below(8) {
        0 => U256::ZERO,
        1 => U256::MAX,
        2 => U256::from(u128::MAX),
        _ => U256::from(r.range(1, 9)),
    }
}
fn gen_bal(r: &mut Rng, boundary: bool) -> U256 {
    match r.below(if boundary { 8 } else { 40 }) {
        0 => U256::MAX,
        1 => U256::MAX - U256::from(3u8),
        2 => U256::from(u128::MAX),
        3 => U256::from(u128::MAX) + U256::from(1u8),
        _ => U256::from(r.range(0, 1000)),
    }
}

struct Shadow {
    info: HashMap<u64, Option<InfoT>>,
    slots: HashMap<(u64, U256), U256>,
    wiped: BTreeSet<u64>,
}
impl Shadow {
    fn cur(&self, c: &Case, a: u64) -> Option<InfoT> {
        if let Some(i) = self.info.get(&a) {
            return i.clone();
        }
        match c.db.iter().find(|(x, _, _)| *x == a).and_then(|(_, i, _)| i.clone()) {
            Some(i) if i.is_empty() => Some(InfoT::default_info()),
            x => x,
        }
    }
    fn slot(&self, c: &Case, a: u64, k: U256) -> U256 {
        if let Some(v) = self.slots.get(&(a, k)) {
            return *v;
        }
        if self.wiped.contains(&a) {
            return U256::ZERO;
        }
        c.db.iter()
            .find(|(x, _, _)| *x == a)
            .and_then(|(_, _, st)| st.iter().find(|(kk, _)| *kk == k).map(|(_, v)| *v))
            .unwrap_or_default()
    }
    fn wipe(&mut self, a: u64) {
        self.slots.retain(|(x, _), _| *x != a);
        self.wiped.insert(a);
    }
}

fn gen_case(r: &mut Rng) -> Case {
    let mut c = Case { bu: !r.chance(1, 8), ..Default::default() };
    let boundary = r.chance(1, 10); // implausible journal output, malformed database, unloaded accounts
    let naddr = r.range(2, 5);
    let ncode = 3u64;
    // database
    for a in 1..=naddr {
        let kind = r.below(10);
        let info = match kind {
            0..=2 => None,
            3 => Some(InfoT { bal: U256::ZERO, nonce: 0, hash: *r.pick(&[0u64, 1]), code: *r.pick(&[None, Some(0)]) }),
            4..=6 => Some(InfoT { bal: gen_bal(r, boundary), nonce: r.below(3), hash: 1, code: *r.pick(&[None, Some(0)]) }),
            _ => {
                let cd = r.range(1, ncode);
                Some(InfoT { bal: gen_bal(r, boundary), nonce: r.range(0, 2), hash: 2 + cd, code: if r.chance(1, 2) { Some(cd) } else { None } })
            }
        };
        let mut st = Vec::new();
        let has_storage = kind >= 7 || (boundary && r.chance(1, 3));
        if has_storage {
            for k in KEYS {
                if r.chance(1, 2) {
                    st.push((U256::from(k), gen_val(r)));
                }
            }
        }
        c.db.push((a, info, st));
    }
    for cd in 1..=ncode {
        if !(boundary && r.chance(1, 3)) {
            c.codes.push((2 + cd, cd));
        }
    }
    let mut sh = Shadow { info: HashMap::new(), slots: HashMap::new(), wiped: BTreeSet::new() };
    let nblocks = r.range(1, 3);
    for _ in 0..nblocks {
        let ntx = r.range(1, 5);
        for _ in 0..ntx {
            // speculative / journal reads before the commit
            for _ in 0..r.below(3) {
                gen_read(r, &mut c, naddr, ncode);
            }
            let n = r.range(1, 3).min(naddr);
            let mut picked: Vec<u64> = Vec::new();
            while (picked.len() as u64) < n {
                let a = r.range(1, naddr);
                if !picked.contains(&a) {
                    picked.push(a);
                }
            }
            let mut accts = Vec::new();
            for a in picked {
                if !(boundary && r.chance(1, 6)) {
                    // the journal loads an account before it can change it
                    c.ops.push(OpT::Basic { a, via: r.chance(1, 3) });
                }
                accts.push(gen_eacc(r, &c, &mut sh, a, boundary, ncode));
            }
            // `contracts.entry(hash).or_insert_with(|| code.unwrap())` (PS:333) makes the outcome of a
            // commit depend on the map's iteration order when two created accounts share a hash and
            // only one carries code; keep histories order-independent (the model iterates in list order)
            let carried: HashMap<u64, u64> =
                accts.iter().filter(|e| e.flags & 3 == 3).filter_map(|e| e.info.code.map(|cd| (e.info.hash, cd))).collect();
            for e in accts.iter_mut() {
                if e.flags & 3 == 3 && e.info.code.is_none() {
                    if let Some(cd) = carried.get(&e.info.hash) {
                        e.info.code = Some(*cd);
                    }
                }
            }
            c.ops.push(OpT::Commit { split: r.chance(1, 2), accts });
        }
        // post-block balance changes
        if r.chance(1, 3) {
            let n = r.range(1, 3);
            let v: Vec<(u64, u128)> = (0..n)
                .map(|_| {
                    let a = r.range(1, naddr);
                    let x = match r.below(6) {
                        0 => 0,
                        1 => u128::MAX,
                        _ => r.range(1, 50) as u128,
                    };
                    (a, x)
                })
                .collect();
            // every listed account is touched (a zero amount too): one left empty is cleared
            // (a repeated address is computed from the value before the call: the last one wins)
            let pre: Vec<Option<InfoT>> = v.iter().map(|(a, _)| sh.cur(&c, *a)).collect();
            for ((a, x), p) in v.iter().zip(pre) {
                let mut i = p.unwrap_or_else(InfoT::default_info);
                i.bal = i.bal.saturating_add(U256::from(*x));
                sh.info.insert(*a, if i.is_empty() { None } else { Some(i) });
            }
            c.ops.push(OpT::Incr(v));
        }
        if r.chance(1, 10) {
            let n = r.range(1, 2);
            let v: Vec<u64> = (0..n).map(|_| r.range(1, naddr)).collect();
            for a in &v {
                let mut i = sh.cur(&c, *a).unwrap_or_else(InfoT::default_info);
                i.bal = U256::ZERO;
                sh.info.insert(*a, if i.is_empty() { None } else { Some(i) });
            }
            c.ops.push(OpT::Drain(v));
        }
        // end of block
        match r.below(10) {
            0 => {} // transitions stay pending into the next block
            1..=4 => c.ops.push(OpT::Merge(r.chance(2, 3))),
            _ => c.ops.push(OpT::ParTake(r.chance(2, 3))),
        }
        if r.chance(1, 4) {
            c.ops.push(OpT::Take);
        }
        if r.chance(1, 6) {
            c.ops.push(OpT::Inject);
        }
    }
    if r.chance(1, 2) {
        c.ops.push(if r.chance(1, 2) { OpT::ParTake(r.chance(1, 2)) } else { OpT::Merge(r.chance(1, 2)) });
    }
    // the dump universe, then read everything back (the "every value readable" part)
    let mut addrs: BTreeSet<u64> = (1..=naddr).collect();
    let mut slots: BTreeSet<(u64, U256)> = BTreeSet::new();
    let mut hashes: BTreeSet<u64> = (0..=2 + ncode).collect();
    for (a, _, st) in &c.db {
        for (k, _) in st {
            slots.insert((*a, *k));
        }
    }
    for o in &c.ops {
        match o {
            OpT::Commit { accts, .. } => {
                for e in accts {
                    addrs.insert(e.a);
                    hashes.insert(e.info.hash);
                    for (k, _, _) in &e.slots {
                        slots.insert((e.a, *k));
                    }
                }
            }
            OpT::Storage { a, k, .. } => {
                slots.insert((*a, *k));
            }
            OpT::Code { h, .. } => {
                hashes.insert(*h);
            }
            OpT::Incr(v) => v.iter().for_each(|(a, _)| {
                addrs.insert(*a);
            }),
            OpT::Drain(v) => v.iter().for_each(|a| {
                addrs.insert(*a);
            }),
            OpT::Basic { a, .. } => {
                addrs.insert(*a);
            }
            _ => {}
        }
    }
    for a in &addrs {
        for k in KEYS {
            if r.chance(1, 3) {
                slots.insert((*a, U256::from(k)));
            }
        }
    }
    c.uni_addrs = addrs.iter().copied().collect();
    c.uni_slots = slots.iter().copied().collect();
    c.uni_hashes = hashes.iter().copied().collect();
    // final reads: slots first or accounts first, chosen per case (read order must not matter)
    let slots_first = r.chance(1, 2);
    let push_slots = |c: &mut Case, r: &mut Rng| {
        for (a, k) in c.uni_slots.clone() {
            c.ops.push(OpT::Storage { a, k, via: r.chance(1, 2) });
        }
    };
    if slots_first {
        push_slots(&mut c, r);
    }
    for a in c.uni_addrs.clone() {
        c.ops.push(OpT::Basic { a, via: r.chance(1, 2) });
    }
    if !slots_first {
        push_slots(&mut c, r);
    }
    for h in c.uni_hashes.clone() {
        c.ops.push(OpT::Code { h, via: r.chance(1, 2) });
    }
    c
}

fn gen_read(r: &mut Rng, c: &mut Case, naddr: u64, ncode: u64) {
    let via = r.chance(1, 2);
    match r.below(5) {
        0 | 1 => c.ops.push(OpT::Storage { a: r.range(1, naddr), k: gen_key(r), via }),
        2 | 3 => c.ops.push(OpT::Basic { a: r.range(1, naddr), via }),
        _ => c.ops.push(OpT::Code { h: r.below(3 + ncode), via }),
    }
}

fn gen_eacc(r: &mut Rng, c: &Case, sh: &mut Shadow, a: u64, boundary: bool, ncode: u64) -> EAcc {
    let cur = sh.cur(c, a);
    let orig = cur.clone().unwrap_or_else(InfoT::default_info);
    let lne = if cur.is_none() { 8 } else { 0 };
    if boundary && r.chance(1, 3) {
        // anything goes
        let cd = r.below(ncode + 1);
        let info = InfoT {
            bal: gen_bal(r, true),
            nonce: r.below(3),
            hash: if cd == 0 { *r.pick(&[0u64, 1]) } else { 2 + cd },
            code: if r.chance(1, 4) { None } else { Some(cd) },
        };
        let slots = (0..r.below(3)).map(|_| (gen_key(r), gen_val(r), gen_val(r))).collect();
        let flags = r.below(16) as u8;
        // keep the shadow roughly right (only plausibility of later steps depends on it)
        if flags & 1 != 0 {
            if flags & 4 != 0 {
                sh.info.insert(a, None);
                sh.wipe(a);
            } else if flags & 2 != 0 {
                sh.wipe(a);
                sh.info.insert(a, Some(info.clone()));
            } else if info.is_empty() {
                sh.info.insert(a, None);
                sh.wipe(a);
            } else {
                sh.info.insert(a, Some(info.clone()));
            }
        }
        return EAcc { a, flags, info, orig, slots: dedup(slots) };
    }
    let can_create = cur.as_ref().is_none_or(|i| i.nonce == 0 && i.hash <= 1);
    let kind = r.below(20);
    match kind {
        0..=1 => EAcc { a, flags: lne, info: orig.clone(), orig, slots: vec![] }, // loaded, not touched
        2..=4 => {
            // selfdestruct (sometimes of an account created in the same transaction)
            let created = can_create && r.chance(1, 4);
            let mut info = orig.clone();
            info.bal = U256::ZERO;
            let slots = if created { vec![(gen_key(r), U256::ZERO, gen_val(r))] } else { vec![] };
            sh.info.insert(a, None);
            sh.wipe(a);
            EAcc { a, flags: 1 | 4 | if created { 2 } else { 0 } | lne, info, orig, slots }
        }
        5..=8 if can_create => {
            let cd = r.range(1, ncode);
            let info = InfoT {
                bal: cur.as_ref().map_or(U256::ZERO, |i| i.bal).saturating_add(U256::from(r.below(5))),
                nonce: 1,
                hash: 2 + cd,
                code: Some(cd),
            };
            let mut slots = Vec::new();
            for _ in 0..r.below(4) {
                let k = gen_key(r);
                let v = if r.chance(1, 5) { U256::ZERO } else { gen_val(r) };
                slots.push((k, U256::ZERO, v));
            }
            let slots = dedup(slots);
            sh.wipe(a);
            for (k, _, p) in &slots {
                sh.slots.insert((a, *k), *p);
            }
            sh.info.insert(a, Some(info.clone()));
            EAcc { a, flags: 1 | 2 | lne, info, orig, slots }
        }
        9..=11 => {
            // touched and empty: EIP-161 clearing (of an empty, a non-existing, or an emptied account)
            let info = InfoT { bal: U256::ZERO, nonce: 0, hash: *r.pick(&[1u64, 1, 0]), code: *r.pick(&[Some(0), None]) };
            let plausible = cur.as_ref().is_none_or(|i| i.nonce == 0 && i.hash <= 1);
            if plausible || boundary {
                sh.info.insert(a, None);
                sh.wipe(a);
                EAcc { a, flags: 1 | lne, info, orig, slots: vec![] }
            } else {
                EAcc { a, flags: lne, info: orig.clone(), orig, slots: vec![] }
            }
        }
        _ => {
            // change: balance / nonce, storage writes for contracts
            let mut info = orig.clone();
            match r.below(4) {
                0 => info.nonce += 1,
                1 => info.bal = gen_bal(r, boundary),
                2 => {
                    info.bal = info.bal.saturating_add(U256::from(r.range(1, 9)));
                }
                _ => {
                    info.nonce += 1;
                    info.bal = U256::from(r.below(50));
                }
            }
            if info.is_empty() {
                info.bal = U256::from(1u8);
            }
            let mut slots = Vec::new();
            if info.hash >= 2 || r.chance(1, 6) {
                for _ in 0..r.below(4) {
                    let k = gen_key(r);
                    let o = sh.slot(c, a, k);
                    let p = match r.below(5) {
                        0 => o, // read only: not a change
                        1 => U256::ZERO,
                        _ => gen_val(r),
                    };
                    slots.push((k, o, p));
                }
            }
            let slots = dedup(slots);
            for (k, _, p) in &slots {
                sh.slots.insert((a, *k), *p);
            }
            sh.info.insert(a, Some(info.clone()));
            EAcc { a, flags: 1 | lne, info, orig, slots }
        }
    }
}

fn dedup(v: Vec<(U256, U256, U256)>) -> Vec<(U256, U256, U256)> {
    let mut seen = BTreeSet::new();
    v.into_iter().filter(|(k, _, _)| seen.insert(*k)).collect()
}

// ------------------------------------------------------------------------------------ runners

fn retention(r: bool) -> BundleRetention {
    if r { BundleRetention::Reverts } else { BundleRetention::PlainState }
}

struct RunOut {
    main: String,
    bundle: String,
    beq: bool,
}

/// Observe the transitions one call produces: run it against an empty TransitionState, read what
/// was added, restore the saved one and add the produced transitions to it with the real
/// `apply_transition`.  With `observe == false` the call runs undisturbed and `T*` is printed; the
/// two runs of a case must agree on everything else (flag OBS).
fn run_par(case: &Case, observe: bool) -> RunOut {
    let mut st = ParallelState::new(case.memdb(), case.bu, false);
    let mut out = String::new();
    let mut bout = String::new();
    let mut beq = true;
    let mut last_bundle: Option<BundleState> = None;
    let mut panicked = false;
    for op in &case.ops {
        let mut in_merge = false;
        let res = catch_unwind(AssertUnwindSafe(|| {
            let o = &mut out;
            match op {
                OpT::Commit { split, accts } => {
                    let es = evm_state(accts);
                    let saved = if observe { Some(st.transition_state.replace(TransitionState::default())) } else { None };
                    if *split {
                        let (_view, mut commit) = vc::split(&mut st);
                        commit.commit(es);
                    } else {
                        st.commit(es);
                    }
                    match saved {
                        Some(saved) => {
                            let produced = st.transition_state.take().unwrap();
                            st.transition_state = saved;
                            write!(o, " T{}", translist_tok(produced.transitions.iter())).unwrap();
                            st.apply_transition(produced.transitions.into_iter().collect());
                        }
                        None => o.push_str(" T*"),
                    }
                }
                OpT::Incr(v) => {
                    let saved = if observe { Some(st.transition_state.replace(TransitionState::default())) } else { None };
                    st.increment_balances(v.iter().map(|(a, x)| (addr(*a), *x))).unwrap();
                    match saved {
                        Some(saved) => {
                            let produced = st.transition_state.take().unwrap();
                            st.transition_state = saved;
                            write!(o, " T{}", translist_tok(produced.transitions.iter())).unwrap();
                            st.apply_transition(produced.transitions.into_iter().collect());
                        }
                        None => o.push_str(" T*"),
                    }
                }
                OpT::Drain(v) => {
                    let saved = if observe { Some(st.transition_state.replace(TransitionState::default())) } else { None };
                    let bals = st.drain_balances(v.iter().map(|a| addr(*a))).unwrap();
                    write!(o, " D[{}]", bals.iter().map(|b| format!("{b:x}")).collect::<Vec<_>>().join(",")).unwrap();
                    match saved {
                        Some(saved) => {
                            let produced = st.transition_state.take().unwrap();
                            st.transition_state = saved;
                            o.push_str(&translist_tok(produced.transitions.iter()));
                            st.apply_transition(produced.transitions.into_iter().collect());
                        }
                        None => o.push('*'),
                    }
                }
                OpT::Basic { a, via } => {
                    let i = if *via {
                        let (view, _c) = vc::split(&mut st);
                        view.basic(addr(*a)).unwrap()
                    } else if a % 2 == 0 {
                        st.basic(addr(*a)).unwrap()
                    } else {
                        st.basic_ref(addr(*a)).unwrap()
                    };
                    write!(o, " I{}", info_tok(i.as_ref())).unwrap();
                }
                OpT::Storage { a, k, via } => {
                    let w = if *via {
                        let (view, _c) = vc::split(&mut st);
                        view.storage(addr(*a), *k).unwrap()
                    } else if a % 2 == 0 {
                        st.storage(addr(*a), *k).unwrap()
                    } else {
                        st.storage_ref(addr(*a), *k).unwrap()
                    };
                    write!(o, " W{w:x}").unwrap();
                }
                OpT::Code { h, via } => {
                    let cd = if *via {
                        let (view, _c) = vc::split(&mut st);
                        view.code_by_hash(hash(*h)).unwrap()
                    } else if h % 2 == 0 {
                        st.code_by_hash(hash(*h)).unwrap()
                    } else {
                        st.code_by_hash_ref(hash(*h)).unwrap()
                    };
                    write!(o, " C{:x}", code_id(&cd)).unwrap();
                }
                OpT::Merge(r) | OpT::ParTake(r) => {
                    match &st.transition_state {
                        None => o.push_str(" M-"),
                        Some(ts) => {
                            write!(o, " M{}", translist_tok(ts.transitions.iter())).unwrap();
                            // the two builders on the very inputs of this merge (order-sensitive)
                            let (ts1, ts2) = (ts.clone(), ts.clone());
                            let (mut b1, mut b2) = (st.bundle_state.clone(), st.bundle_state.clone());
                            let r1 = catch_unwind(AssertUnwindSafe(|| b1.apply_transitions_and_create_reverts(ts1, retention(*r))));
                            let r2 = catch_unwind(AssertUnwindSafe(|| b2.parallel_apply_transitions_and_create_reverts(ts2, retention(*r))));
                            let same = match (r1, r2) {
                                (Ok(()), Ok(())) => b1 == b2 && *b1.reverts == *b2.reverts && b1.state_size == b2.state_size && b1.reverts_size == b2.reverts_size,
                                (Err(_), Err(_)) => true,
                                _ => false,
                            };
                            beq &= same;
                        }
                    }
                    in_merge = true;
                    if matches!(op, OpT::Merge(_)) {
                        st.merge_transitions(retention(*r));
                    } else {
                        let b = st.parallel_take_bundle(retention(*r));
                        write!(bout, " {}", bundle_tok(&b)).unwrap();
                        last_bundle = Some(b);
                    }
                }
                OpT::Take => {
                    let b = st.take_bundle();
                    write!(bout, " {}", bundle_tok(&b)).unwrap();
                    last_bundle = Some(b);
                    o.push_str(" -");
                }
                OpT::Inject => {
                    if let Some(b) = &last_bundle {
                        st.bundle_state = b.clone();
                    }
                    o.push_str(" -");
                }
            }
        }));
        if res.is_err() {
            // a panic inside merge comes from revm's update_and_create_revert (`unreachable!` on a status
            // sequence no journal produces); it is outside the model and must hit both implementations
            out.push_str(if in_merge { " MERGE-PANIC" } else { " PANIC" });
            bout.push_str(" PANIC");
            panicked = true;
            break;
        }
    }
    if !panicked {
        write!(bout, " END{} hint={}", bundle_tok(&st.bundle_state), st.bundle_size_hint()).unwrap();
    }
    // dump (after a panic the implementation is half-way through an operation: nothing to compare)
    if panicked {
        out.push_str(" | -");
        return RunOut { main: out, bundle: bout, beq };
    }
    out.push_str(" | A[");
    for a in &case.uni_addrs {
        match st.cache.accounts.get(&addr(*a)) {
            Some(acc) => write!(out, "{a:x}={}/{} ", info_tok(acc.account.as_ref()), status_tok(acc.status)).unwrap(),
            None => write!(out, "{a:x}=~ ").unwrap(),
        }
    }
    out.push_str("] S[");
    for (a, k) in &case.uni_slots {
        let v = st.cache.storage.get(&addr(*a)).and_then(|m| m.get(k).map(|v| *v));
        match v {
            Some(v) => write!(out, "{a:x}.{k:x}={v:x} ").unwrap(),
            None => write!(out, "{a:x}.{k:x}=~ ").unwrap(),
        }
    }
    out.push_str("] K[");
    for h in &case.uni_hashes {
        match st.cache.contracts.get(&hash(*h)) {
            Some(c) => write!(out, "{h:x}={:x} ", code_id(c.value())).unwrap(),
            None => write!(out, "{h:x}=~ ").unwrap(),
        }
    }
    out.push(']');
    RunOut { main: out, bundle: bout, beq }
}

fn run_revm(case: &Case, observe: bool) -> RunOut {
    let b = State::builder().with_database(case.memdb());
    let mut st = if case.bu { b.with_bundle_update().build() } else { b.build() };
    let mut out = String::new();
    let mut bout = String::new();
    let mut last_bundle: Option<BundleState> = None;
    let mut panicked = false;
    for op in &case.ops {
        let mut in_merge = false;
        let res = catch_unwind(AssertUnwindSafe(|| {
            let o = &mut out;
            match op {
                OpT::Commit { accts, .. } => {
                    let es = evm_state(accts);
                    let saved = if observe { Some(st.transition_state.replace(TransitionState::default())) } else { None };
                    st.commit(es);
                    match saved {
                        Some(saved) => {
                            let produced = st.transition_state.take().unwrap();
                            st.transition_state = saved;
                            write!(o, " T{}", translist_tok(produced.transitions.iter())).unwrap();
                            st.apply_transition(produced.transitions);
                        }
                        None => o.push_str(" T*"),
                    }
                }
                OpT::Incr(v) => {
                    // `State::increment_balances` = the default method of `DatabaseCommitExt`
                    let saved = if observe { Some(st.transition_state.replace(TransitionState::default())) } else { None };
                    DatabaseCommitExt::increment_balances(&mut st, v.iter().map(|(a, x)| (addr(*a), *x))).unwrap();
                    match saved {
                        Some(saved) => {
                            let produced = st.transition_state.take().unwrap();
                            st.transition_state = saved;
                            write!(o, " T{}", translist_tok(produced.transitions.iter())).unwrap();
                            st.apply_transition(produced.transitions);
                        }
                        None => o.push_str(" T*"),
                    }
                }
                OpT::Drain(v) => {
                    let saved = if observe { Some(st.transition_state.replace(TransitionState::default())) } else { None };
                    let bals = DatabaseCommitExt::drain_balances(&mut st, v.iter().map(|a| addr(*a))).unwrap();
                    write!(o, " D[{}]", bals.iter().map(|b| format!("{b:x}")).collect::<Vec<_>>().join(",")).unwrap();
                    match saved {
                        Some(saved) => {
                            let produced = st.transition_state.take().unwrap();
                            st.transition_state = saved;
                            o.push_str(&translist_tok(produced.transitions.iter()));
                            st.apply_transition(produced.transitions);
                        }
                        None => o.push('*'),
                    }
                }
                // the reference for reads is the `Database` interface the EVM executes against
                OpT::Basic { a, .. } => {
                    let i = st.basic(addr(*a)).unwrap();
                    write!(o, " I{}", info_tok(i.as_ref())).unwrap();
                }
                OpT::Storage { a, k, .. } => {
                    let w = Database::storage(&mut st, addr(*a), *k).unwrap();
                    write!(o, " W{w:x}").unwrap();
                }
                OpT::Code { h, .. } => {
                    let cd = st.code_by_hash(hash(*h)).unwrap();
                    write!(o, " C{:x}", code_id(&cd)).unwrap();
                }
                OpT::Merge(r) | OpT::ParTake(r) => {
                    match &st.transition_state {
                        None => o.push_str(" M-"),
                        Some(ts) => write!(o, " M{}", translist_tok(ts.transitions.iter())).unwrap(),
                    }
                    in_merge = true;
                    st.merge_transitions(retention(*r));
                    if matches!(op, OpT::ParTake(_)) {
                        let b = st.take_bundle();
                        write!(bout, " {}", bundle_tok(&b)).unwrap();
                        last_bundle = Some(b);
                    }
                }
                OpT::Take => {
                    let b = st.take_bundle();
                    write!(bout, " {}", bundle_tok(&b)).unwrap();
                    last_bundle = Some(b);
                    o.push_str(" -");
                }
                OpT::Inject => {
                    if let Some(b) = &last_bundle {
                        st.bundle_state = b.clone();
                    }
                    o.push_str(" -");
                }
            }
        }));
        if res.is_err() {
            // a panic inside merge comes from revm's update_and_create_revert (`unreachable!` on a status
            // sequence no journal produces); it is outside the model and must hit both implementations
            out.push_str(if in_merge { " MERGE-PANIC" } else { " PANIC" });
            bout.push_str(" PANIC");
            panicked = true;
            break;
        }
    }
    if !panicked {
        write!(bout, " END{} hint={}", bundle_tok(&st.bundle_state), st.bundle_size_hint()).unwrap();
    }
    if panicked {
        out.push_str(" | -");
        return RunOut { main: out, bundle: bout, beq: true };
    }
    out.push_str(" | A[");
    for a in &case.uni_addrs {
        match st.cache.accounts.get(&addr(*a)) {
            Some(acc) => write!(out, "{a:x}={}/{} ", info_tok(acc.account.as_ref().map(|p| &p.info)), status_tok(acc.status)).unwrap(),
            None => write!(out, "{a:x}=~ ").unwrap(),
        }
    }
    out.push_str("] S[");
    for (a, k) in &case.uni_slots {
        let v = st.cache.accounts.get(&addr(*a)).and_then(|acc| acc.account.as_ref()).and_then(|p| p.storage.get(k).copied());
        match v {
            Some(v) => write!(out, "{a:x}.{k:x}={v:x} ").unwrap(),
            None => write!(out, "{a:x}.{k:x}=~ ").unwrap(),
        }
    }
    out.push_str("] K[");
    for h in &case.uni_hashes {
        match st.cache.contracts.get(&hash(*h)) {
            Some(c) => write!(out, "{h:x}={:x} ", code_id(c)).unwrap(),
            None => write!(out, "{h:x}=~ ").unwrap(),
        }
    }
    out.push(']');
    RunOut { main: out, bundle: bout, beq: true }
}

/// `T[..]` / `D[..][..]` tokens of the observed run replaced by the placeholders of the unobserved one.
fn strip_observed(main: &str) -> String {
    main.split(' ')
        .map(|t| {
            if t.starts_with("T[") {
                "T*".to_owned()
            } else if t.starts_with("D[") {
                format!("{}*", &t[..t.find(']').unwrap() + 1])
            } else {
                t.to_owned()
            }
        })
        .collect::<Vec<_>>()
        .join(" ")
}

fn run_cases(lines: &[String], outdir: &str) {
    if std::env::var_os("CACHE_VERBOSE").is_none() {
        std::panic::set_hook(Box::new(|_| {}));
    }
    let (mut par, mut revm, mut parb, mut revmb, mut flags) = (String::new(), String::new(), String::new(), String::new(), String::new());
    for line in lines {
        let case = Case::parse(line);
        let p = run_par(&case, true);
        let p2 = run_par(&case, false);
        let r = run_revm(&case, true);
        let r2 = run_revm(&case, false);
        let obs = strip_observed(&p.main) == p2.main && p.bundle == p2.bundle && strip_observed(&r.main) == r2.main && r.bundle == r2.bundle;
        writeln!(par, "{}", p.main).unwrap();
        writeln!(revm, "{}", r.main).unwrap();
        writeln!(parb, "{}", p.bundle).unwrap();
        writeln!(revmb, "{}", r.bundle).unwrap();
        writeln!(
            flags,
            "BEQ={} OBS={} WF={}",
            if p.beq && p2.beq { "ok" } else { "DIFF" },
            if obs { "ok" } else { "DIFF" },
            case.well_formed() as u8
        )
        .unwrap();
    }
    fs::create_dir_all(outdir).unwrap();
    fs::write(format!("{outdir}/cache.par"), par).unwrap();
    fs::write(format!("{outdir}/cache.revm"), revm).unwrap();
    fs::write(format!("{outdir}/cache.parb"), parb).unwrap();
    fs::write(format!("{outdir}/cache.revmb"), revmb).unwrap();
    fs::write(format!("{outdir}/cache.flags"), flags).unwrap();
}

// ------------------------------------------------------------------------------------ F1

/// Database whose first `storage_ref(victim, slot)` returns only after `release` is signalled; it
/// signals `fetched` once it holds the value it read.
#[derive(Default)]
struct Gate {
    state: Mutex<(bool, bool, bool)>, // (fetched, released, reader finished)
    cv: Condvar,
}
struct BlockingDb {
    inner: MemDb,
    victim: Address,
    gate: Arc<Gate>,
    armed: std::sync::atomic::AtomicBool,
}
impl DatabaseRef for BlockingDb {
    type Error = Infallible;
    fn basic_ref(&self, a: Address) -> Result<Option<AccountInfo>, Infallible> {
        self.inner.basic_ref(a)
    }
    fn code_by_hash_ref(&self, h: B256) -> Result<Bytecode, Infallible> {
        self.inner.code_by_hash_ref(h)
    }
    fn storage_ref(&self, a: Address, k: U256) -> Result<U256, Infallible> {
        let v = self.inner.storage_ref(a, k)?;
        if a == self.victim && self.armed.swap(false, std::sync::atomic::Ordering::SeqCst) {
            let mut g = self.gate.state.lock().unwrap();
            g.0 = true;
            self.gate.cv.notify_all();
            while !g.1 {
                g = self.gate.cv.wait(g).unwrap();
            }
        }
        Ok(v)
    }
    fn block_hash_ref(&self, _n: u64) -> Result<B256, Infallible> {
        Ok(B256::ZERO)
    }
}

/// One deterministic run of the F1 window for commit kind `kind` (0 selfdestruct, 1 re-create,
/// 2 empty-touch). Returns (value served by later reads of (V, 5), value an in-order run serves).
fn f1_once(kind: u8) -> (U256, U256, Option<AccountInfo>) {
    let v = addr(0xbad);
    let slot = U256::from(5u8);
    let mut db = MemDb::default();
    // kind 1 / 2 need an account the EVM may re-create / clear: no code, nonce 0 - and a slot, which
    // is a database the hypotheses of the sequential theorem exclude; the selfdestruct case (kind 0)
    // uses an ordinary contract.
    let info = if kind == 0 {
        AccountInfo { balance: U256::from(9u8), nonce: 1, code_hash: hash(3), account_id: None, code: Some(code(1)) }
    } else {
        AccountInfo { balance: U256::from(9u8), nonce: 0, code_hash: KECCAK_EMPTY, account_id: None, code: Some(code(0)) }
    };
    db.basic.insert(v, info.clone());
    db.storage.insert((v, slot), U256::from(7u8));
    let gate = Arc::new(Gate::default());
    let bdb = BlockingDb { inner: db, victim: v, gate: gate.clone(), armed: true.into() };
    let mut st = ParallelState::new(bdb, true, false);
    // the journal of the committing transaction loaded V (every commit is preceded by a basic read)
    st.basic_ref(v).unwrap();
    let es = {
        let mut e = EAcc {
            a: 0xbad,
            flags: 1,
            info: InfoT { bal: U256::ZERO, nonce: 1, hash: 3, code: Some(1) },
            orig: InfoT { bal: U256::from(9u8), nonce: 1, hash: 3, code: Some(1) },
            slots: vec![],
        };
        match kind {
            0 => e.flags = 1 | 4,
            1 => {
                e.flags = 1 | 2;
                e.info = InfoT { bal: U256::from(9u8), nonce: 1, hash: 4, code: Some(2) };
            }
            _ => {
                e.info = InfoT { bal: U256::ZERO, nonce: 0, hash: 1, code: Some(0) };
            }
        }
        evm_state(&[e])
    };
    {
        let (view, mut commit) = vc::split(&mut st);
        std::thread::scope(|s| {
            let reader = s.spawn(move || view.storage(v, slot).unwrap());
            // wait until the reader has fetched the pre-commit value from the database
            {
                let mut g = gate.state.lock().unwrap();
                while !g.0 {
                    g = gate.cv.wait(g).unwrap();
                }
            }
            commit.commit(es);
            {
                let mut g = gate.state.lock().unwrap();
                g.1 = true;
                gate.cv.notify_all();
            }
            reader.join().unwrap();
        });
    }
    let served = st.storage_ref(v, slot).unwrap();
    let basic = st.basic_ref(v).unwrap();
    (served, U256::ZERO, basic)
}

fn f1(rounds: usize) -> bool {
    let mut reproduced = false;
    for kind in 0..3u8 {
        let name = ["selfdestruct", "create", "empty-touch"][kind as usize];
        let mut stale = 0;
        let mut last = (U256::ZERO, U256::ZERO, None);
        for _ in 0..rounds {
            let r = f1_once(kind);
            if r.0 != r.1 {
                stale += 1;
            }
            last = r;
        }
        println!(
            "F1 kind={name} rounds={rounds} stale={stale} served={:x} in_order={:x} basic={}",
            last.0,
            last.1,
            info_tok(last.2.as_ref())
        );
        reproduced |= stale > 0;
    }
    println!("F1 reproduced={}", reproduced as u8);
    reproduced
}

// ------------------------------------------------------------------------------------ conc

/// Coarse-schedule differential for coq/Cache/Conc.v on the real code: `j` whole commits of V, a
/// reader of (V, key) whose database fetch (if it needs one) is held while `m` further commits run
/// on the commit handle, then the reader's insert, then the remaining commits.  The model runs the
/// same schedule under both orderings (`O` unchanged tree, `F` repaired); checklib decides which one
/// the code follows.
fn conc_case(r: &mut Rng) -> (String, String) {
    let v = addr(0xbad);
    let keys = [0u64, 1, 5];
    let kind = r.below(10);
    let basic: Option<InfoT> = match kind {
        0..=1 => None,
        2 => Some(InfoT { bal: U256::ZERO, nonce: 0, hash: 1, code: Some(0) }),
        3..=4 => Some(InfoT { bal: U256::from(r.range(1, 9)), nonce: 0, hash: 1, code: Some(0) }),
        _ => Some(InfoT { bal: U256::from(r.range(0, 9)), nonce: r.range(0, 2), hash: 3, code: Some(1) }),
    };
    let mut dbl: Vec<(u64, U256)> = Vec::new();
    for k in keys {
        if (kind >= 5 && r.chance(2, 3)) || r.chance(1, 12) {
            dbl.push((k, U256::from(r.range(1, 9))));
        }
    }
    let preload = r.chance(2, 3);
    let prereads: Vec<u64> = (0..r.below(3)).map(|_| *r.pick(&keys)).collect();
    let ncops = r.range(1, 3) as usize;
    let mut cops: Vec<(String, EAcc)> = Vec::new();
    for _ in 0..ncops {
        let dflt = InfoT::default_info();
        let mut e = EAcc { a: 0xbad, flags: 1, info: dflt.clone(), orig: dflt, slots: vec![] };
        let mut tok;
        match r.below(8) {
            0..=2 => {
                e.flags = 1 | 4;
                tok = "D".to_owned();
            }
            3 => {
                e.info = InfoT { bal: U256::ZERO, nonce: 0, hash: 1, code: Some(0) };
                tok = "T".to_owned();
            }
            x => {
                let created = x <= 5;
                e.info = InfoT { bal: U256::from(r.range(1, 9)), nonce: r.range(1, 3), hash: 4, code: Some(2) };
                if created {
                    e.flags = 1 | 2;
                }
                let mut seen = BTreeSet::new();
                for _ in 0..r.below(3) {
                    let k = *r.pick(&keys);
                    if seen.insert(k) {
                        let p = U256::from(r.range(1, 9));
                        // original differs from present, so the slot counts as changed
                        e.slots.push((U256::from(k), if created { U256::ZERO } else { p + U256::from(1u8) }, p));
                    }
                }
                tok = format!("{} {} {}", if created { "N" } else { "G" }, e.info.tok(), e.slots.len());
                for (k, _, p) in &e.slots {
                    write!(tok, " {k:x} {p:x}").unwrap();
                }
            }
        }
        cops.push((tok, e));
    }
    let key = *r.pick(&keys);
    let j = r.below(ncops as u64 + 1) as usize;
    let m = r.below((ncops - j) as u64 + 1) as usize;
    let uni = [0u64, 1, 2, 5];
    let mut line = format!("conc {} {}", basic.as_ref().map_or("-".to_owned(), InfoT::tok), dbl.len());
    for (k, x) in &dbl {
        write!(line, " {k:x} {x:x}").unwrap();
    }
    write!(line, " {} {}", preload as u8, prereads.len()).unwrap();
    for k in &prereads {
        write!(line, " {k:x}").unwrap();
    }
    write!(line, " {}", cops.len()).unwrap();
    for (t, _) in &cops {
        write!(line, " {t}").unwrap();
    }
    write!(line, " {key:x} {j} {m} {}", uni.len()).unwrap();
    for k in uni {
        write!(line, " {k:x}").unwrap();
    }

    // the real thing
    let mut db = MemDb::default();
    if let Some(i) = &basic {
        db.basic.insert(v, i.real());
    }
    for (k, x) in &dbl {
        db.storage.insert((v, U256::from(*k)), *x);
    }
    let gate = Arc::new(Gate::default());
    let bdb = BlockingDb { inner: db, victim: v, gate: gate.clone(), armed: false.into() };
    let mut st = ParallelState::new(bdb, true, false);
    if preload {
        st.basic_ref(v).unwrap();
    }
    for k in &prereads {
        st.storage_ref(v, U256::from(*k)).unwrap();
    }
    if !preload {
        st.basic_ref(v).unwrap();
    }
    for (_, e) in &cops[..j] {
        st.commit(evm_state(std::slice::from_ref(e)));
    }
    st.database.armed.store(true, std::sync::atomic::Ordering::SeqCst);
    let mut gated = false;
    let ret;
    let mut done_commits = j;
    {
        let (view, mut commit) = vc::split(&mut st);
        let g2 = gate.clone();
        ret = std::thread::scope(|s| {
            let reader = s.spawn(move || {
                let x = view.storage(v, U256::from(key)).unwrap();
                let mut g = g2.state.lock().unwrap();
                g.2 = true;
                g2.cv.notify_all();
                x
            });
            {
                let mut g = gate.state.lock().unwrap();
                while !g.0 && !g.2 {
                    g = gate.cv.wait(g).unwrap();
                }
                gated = g.0;
            }
            if gated {
                for (_, e) in &cops[j..j + m] {
                    commit.commit(evm_state(std::slice::from_ref(e)));
                }
                done_commits = j + m;
                let mut g = gate.state.lock().unwrap();
                g.1 = true;
                gate.cv.notify_all();
            }
            reader.join().unwrap()
        });
    }
    st.database.armed.store(false, std::sync::atomic::Ordering::SeqCst);
    for (_, e) in &cops[done_commits..] {
        st.commit(evm_state(std::slice::from_ref(e)));
    }
    let mut out = format!(" ret={ret:x} gated={}", gated as u8);
    match st.cache.accounts.get(&v) {
        Some(acc) => write!(out, " acct={}/{}", info_tok(acc.account.as_ref()), status_tok(acc.status)).unwrap(),
        None => out.push_str(" acct=~"),
    }
    let cached: Vec<Option<U256>> =
        uni.iter().map(|k| st.cache.storage.get(&v).and_then(|mm| mm.get(&U256::from(*k)).map(|x| *x))).collect();
    for (k, c) in uni.iter().zip(cached) {
        let ans = st.storage_ref(v, U256::from(*k)).unwrap();
        write!(out, " {k:x}={}:{ans:x}", c.map_or("~".to_owned(), |x| format!("{x:x}"))).unwrap();
    }
    (line, out)
}

fn conc(seed: u64, count: u64, outdir: &str) {
    let mut rng = Rng::new(seed ^ 0xC0C);
    let (mut inp, mut imp) = (String::new(), String::new());
    for _ in 0..count {
        let mut cr = rng.fork();
        let (l, o) = conc_case(&mut cr);
        writeln!(inp, "{l}").unwrap();
        writeln!(imp, "{o}").unwrap();
    }
    fs::create_dir_all(outdir).unwrap();
    fs::write(format!("{outdir}/conc.in"), inp).unwrap();
    fs::write(format!("{outdir}/conc.impl"), imp).unwrap();
}

// ------------------------------------------------------------------------------------ soak

/// Free-threaded soak: `readers` threads read V's slots (and its account) through the worker view
/// while the committer cycles through change / destroy / re-create / empty-touch commits of V. Then
/// the same commits are replayed on a fresh state with no reader: every slot answer must be equal.
/// Returns (commits, reads, incoherent slots).
fn soak_once(millis: u64, readers: usize, round: u64) -> (usize, u64, usize) {
    use std::sync::atomic::{AtomicBool, AtomicU64, Ordering};
    let v = addr(0xbad);
    let mk_db = || {
        let mut db = MemDb::default();
        db.basic.insert(v, InfoT { bal: U256::from(9u8), nonce: 1, hash: 3, code: Some(1) }.real());
        for k in 0..8u64 {
            db.storage.insert((v, U256::from(k)), U256::from(k + 1));
        }
        db
    };
    let cop = |n: u64| -> EAcc {
        let dflt = InfoT::default_info();
        let mut e = EAcc { a: 0xbad, flags: 1, info: dflt.clone(), orig: dflt, slots: vec![] };
        match (n + round) % 7 {
            0 | 4 => {
                e.info = InfoT { bal: U256::from(n % 50 + 1), nonce: 2, hash: 3, code: Some(1) };
                e.slots = vec![(U256::from(n % 8), U256::from(1000u64), U256::from(n % 90 + 100))];
            }
            1 | 5 => e.flags = 1 | 4,
            2 => {
                e.flags = 1 | 2;
                e.info = InfoT { bal: U256::from(3u8), nonce: 1, hash: 4, code: Some(2) };
                e.slots = vec![(U256::from(1u8), U256::ZERO, U256::from(5u8)), (U256::from(2u8), U256::ZERO, U256::from(6u8))];
            }
            3 => e.info = InfoT { bal: U256::ZERO, nonce: 0, hash: 1, code: Some(0) },
            _ => {
                e.flags = 1 | 2;
                e.info = InfoT { bal: U256::from(4u8), nonce: 1, hash: 3, code: Some(1) };
            }
        }
        e
    };
    let mut st = ParallelState::new(mk_db(), true, false);
    st.basic_ref(v).unwrap();
    let stop = AtomicBool::new(false);
    let reads = AtomicU64::new(0);
    let mut log: Vec<EAcc> = Vec::new();
    {
        let (view, mut commit) = vc::split(&mut st);
        std::thread::scope(|s| {
            for r in 0..readers {
                let view = view.clone();
                let (stop, reads) = (&stop, &reads);
                s.spawn(move || {
                    // bounded, with pauses: dashmap's shard lock prefers readers, so readers spinning on
                    // one shard would starve the committer's write lock for as long as they spin
                    let mut i = r as u64;
                    let mut n = 0u64;
                    while !stop.load(Ordering::Relaxed) && n < 400_000 {
                        let _ = view.storage(v, U256::from(i % 8)).unwrap();
                        if i % 16 == 0 {
                            let _ = view.basic(v).unwrap();
                        }
                        if n % 4 == 0 {
                            std::thread::yield_now();
                        }
                        i += 1;
                        n += 1;
                    }
                    reads.fetch_add(n, Ordering::Relaxed);
                });
            }
            let t0 = std::time::Instant::now();
            let mut n = 0u64;
            while t0.elapsed().as_millis() < millis as u128 && n < 2_000 {
                let e = cop(n);
                commit.commit(evm_state(std::slice::from_ref(&e)));
                log.push(e);
                n += 1;
                if n % 3 == 0 {
                    std::thread::yield_now();
                }
            }
            stop.store(true, Ordering::Relaxed);
        });
    }
    let mut st2 = ParallelState::new(mk_db(), true, false);
    st2.basic_ref(v).unwrap();
    for e in &log {
        st2.commit(evm_state(std::slice::from_ref(e)));
    }
    let mut bad = 0;
    for k in 0..8u64 {
        if st.storage_ref(v, U256::from(k)).unwrap() != st2.storage_ref(v, U256::from(k)).unwrap() {
            bad += 1;
        }
    }
    if info_tok(st.basic_ref(v).unwrap().as_ref()) != info_tok(st2.basic_ref(v).unwrap().as_ref()) {
        bad += 100;
    }
    (log.len(), reads.load(std::sync::atomic::Ordering::Relaxed), bad)
}

fn soak(rounds: u64, millis: u64, readers: usize) -> i32 {
    let (tx, rx) = std::sync::mpsc::channel();
    std::thread::spawn(move || {
        let mut tot = (0usize, 0u64, 0usize, 0u64);
        for r in 0..rounds {
            let (c, rd, bad) = soak_once(millis, readers, r);
            tot.0 += c;
            tot.1 += rd;
            tot.2 += bad;
            if bad > 0 {
                tot.3 += 1;
            }
        }
        let _ = tx.send(tot);
    });
    match rx.recv_timeout(std::time::Duration::from_millis(rounds * millis * 5 + 120_000)) {
        Ok((c, rd, bad, rounds_bad)) => {
            println!("SOAK rounds={rounds} commits={c} reads={rd} incoherent_slots={bad} rounds_incoherent={rounds_bad} deadlock=0");
            if bad > 0 { 10 } else { 0 }
        }
        Err(_) => {
            println!("SOAK deadlock=1 (no progress within the time box)");
            3
        }
    }
}

// ------------------------------------------------------------------------------------ main

/// Finding F9 (directed reproduction, public API only). Account A is held by the database with a
/// balance, no nonce, no code AND storage {3: 9}. History: load A, commit "A received 1 wei" (revm
/// promotes a Loaded code-less nonce-less account to InMemoryChange, whose storage is "known": slots
/// not cached by then answer 0), read slot 3. revm's State and ParallelState answer 0. With one read
/// of slot 3 through the shared `&self` interface before the commit - what a speculative worker does -
/// ParallelState answers 9 afterwards. Several variants (slot, amount, number of speculative reads).
fn promo() -> bool {
    let a = Address::with_last_byte(0xA9);
    let mut reproduced = false;
    for (slot, val, credit, reads) in [(3u64, 9u64, 1u64, 1usize), (0, 42, 5, 2), (7, 1, 1, 1)] {
        let mut db = MemDb::default();
        db.basic.insert(a, AccountInfo { balance: U256::from(1), nonce: 0, code_hash: KECCAK_EMPTY, code: None, ..Default::default() });
        db.storage.insert((a, U256::from(slot)), U256::from(val));
        let db = Arc::new(db);
        let touch = |info: AccountInfo| -> EvmState {
            let mut account = Account::from(AccountInfo { balance: info.balance + U256::from(credit), ..info });
            account.mark_touch();
            let mut st = EvmState::default();
            st.insert(a, account);
            st
        };
        let mut r = State::builder().with_bundle_update().with_database_ref(db.clone()).build();
        let info = r.basic(a).unwrap().unwrap();
        r.commit(touch(info));
        let rv = r.storage(a, U256::from(slot)).unwrap();
        let mut p = ParallelState::new(db.clone(), true, false);
        let info = p.basic(a).unwrap().unwrap();
        p.commit(touch(info));
        let pv = p.storage(a, U256::from(slot)).unwrap();
        let mut q = ParallelState::new(db.clone(), true, false);
        let info = q.basic(a).unwrap().unwrap();
        let mut spec = U256::ZERO;
        for _ in 0..reads {
            spec = q.storage_ref(a, U256::from(slot)).unwrap();
        }
        q.commit(touch(info));
        let qv = q.storage(a, U256::from(slot)).unwrap();
        let rep = rv == pv && qv != pv;
        println!("PROMO slot={slot} db_value={val} revm_state={rv} parallel_state={pv} speculative_read={spec} parallel_state_after_speculative_read={qv} reproduced={}", rep as u8);
        if rv != pv {
            println!("PROMO-UNEXPECTED the committed history alone already differs from revm");
            std::process::exit(11);
        }
        reproduced |= rep;
    }
    reproduced
}

fn main() {
    let a: Vec<String> = std::env::args().collect();
    match a[1].as_str() {
        "promo" => {
            let rep = promo();
            std::process::exit(if rep { 10 } else { 0 });
        }
        "gen" => {
            let (seed, count, outdir) = (a[2].parse::<u64>().unwrap(), a[3].parse::<u64>().unwrap(), &a[4]);
            let mut rng = Rng::new(seed ^ 0xC10);
            let mut lines = Vec::new();
            for _ in 0..count {
                let mut cr = rng.fork();
                lines.push(gen_case(&mut cr).line());
            }
            fs::create_dir_all(outdir).unwrap();
            fs::write(format!("{outdir}/cache.in"), lines.join("\n") + "\n").unwrap();
            run_cases(&lines, outdir);
        }
        "run" => {
            let lines: Vec<String> = fs::read_to_string(&a[2]).unwrap().lines().filter(|l| l.starts_with("case")).map(str::to_owned).collect();
            run_cases(&lines, &a[3]);
        }
        "conc" => conc(a[2].parse().unwrap(), a[3].parse().unwrap(), &a[4]),
        "soak" => {
            let rc = soak(a.get(2).map_or(20, |s| s.parse().unwrap()), a.get(3).map_or(100, |s| s.parse().unwrap()), a.get(4).map_or(4, |s| s.parse().unwrap()));
            std::process::exit(rc);
        }
        "f1" => {
            let rounds = a.get(2).map_or(3, |s| s.parse().unwrap());
            let rep = f1(rounds);
            std::process::exit(if rep { 10 } else { 0 });
        }
        k => panic!("unknown sub-command {k}"),
    }
}
