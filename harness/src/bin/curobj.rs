//! C15 correspondence (validation cursor, concurrent): 2-4 threads call next_validation_idx(limit)
//! (= RewindableCursor::claim_before) and rewind_validation_to(v) on the real SchedulerContext under
//! the deterministic driver. The scheduling atomics are instrumented (grevm::verif::atomic), so
//! threads switch between any two atomic operations. One trace per case for the Coq acceptor.
//! usage: curobj <seed> <count> <outfile>
use grevm::verif::objects::ContextV;
use std::{fmt::Write as _, sync::Arc};
use verif_harness::{
    driver::{Driver, Pct, RandomWalk, Strategy, trace_lines},
    rng::Rng,
};

fn main() {
    let a: Vec<String> = std::env::args().collect();
    let (seed, count, out) = (a[1].parse::<u64>().unwrap(), a[2].parse::<u64>().unwrap(), &a[3]);
    let mut rng = Rng::new(seed);
    let mut text = String::new();
    for case in 0..count {
        let mut crng = rng.fork();
        let n = crng.range(3, 12) as usize;
        let threads = crng.range(2, 4) as usize;
        let strat: Box<dyn Strategy> = if crng.chance(1, 3) { Box::new(Pct::new(crng.fork(), 3, 120)) } else { Box::new(RandomWalk { rng: crng.fork(), stay: crng.range(0, 70) }) };
        let driver = Driver::new(threads, strat, 40000);
        let ctx = Arc::new(ContextV::new(n));
        // everything executed: the claim limit is the argument alone
        for i in 0..n {
            ctx.executed(i);
        }
        // start from an advanced cursor so that rewinds have something to take back
        let start = crng.range(0, n as u64) as usize;
        for _ in 0..start {
            let _ = ctx.next_validation_idx(n);
        }
        driver.install();
        std::thread::scope(|sc| {
            for _ in 0..threads {
                let c = ctx.clone();
                let mut r = crng.fork();
                sc.spawn(move || {
                    let _t = grevm::verif::thread_begin("worker");
                    let ops = r.range(2, 7);
                    for _ in 0..ops {
                        if r.chance(2, 5) {
                            let v = r.below(n as u64) as usize;
                            // a timestamp as a validator would take it before scanning ...
                            let t0 = c.logical_timestamp();
                            grevm::verif::p1("cur_call_rewind", v as i64);
                            c.rewind_validation_to(v);
                            // ... must be older than the rewind timestamp published for v
                            grevm::verif::n3("cur_rewound", v as i64, t0 as i64, c.lower_timestamp(v) as i64);
                        } else {
                            let limit = r.range(1, n as u64) as usize;
                            grevm::verif::p1("cur_call_claim", limit as i64);
                            let got = c.next_validation_idx(limit);
                            grevm::verif::n2("cur_result", got.map_or(-1, |g| g as i64), limit as i64);
                        }
                    }
                });
            }
        });
        Driver::uninstall();
        let rep = driver.report();
        writeln!(text, "# case {case} n={n} threads={threads} start={start} failure={:?} final_cursor={}", rep.failure, ctx.validation_idx()).unwrap();
        text.push_str(&trace_lines(&rep.trace));
        text.push_str("--\n");
    }
    std::fs::write(out, text).unwrap();
}
