//! C16 correspondence: 2-3 threads run random add / remove / commit / key_tx / next operations on
//! the real TxDependency (2-4 transactions) under the deterministic driver. One trace per case.
//! usage: depobj <seed> <count> <outfile>
use grevm::verif::objects::TxDependencyV;
use std::{fmt::Write as _, sync::Arc};
use verif_harness::{
    driver::{Driver, Pct, RandomWalk, Strategy, trace_lines},
    rng::Rng,
};

fn main() {
    let a: Vec<String> = std::env::args().collect();
    let (seed, count, out) = (a[1].parse::<u64>().unwrap(), a[2].parse::<u64>().unwrap(), &a[3]);
    let mut rng = Rng::new(seed);
    let mut text = String::new();
    for case in 0..count {
        let mut crng = rng.fork();
        let n = crng.range(2, 4) as usize;
        let workers = crng.range(1, 2) as usize;
        let strat: Box<dyn Strategy> = if crng.chance(1, 3) { Box::new(Pct::new(crng.fork(), 3, 60)) } else { Box::new(RandomWalk { rng: crng.fork(), stay: crng.range(0, 80) }) };
        let driver = Driver::new(workers + 1, strat, 20000);
        let dep = Arc::new(TxDependencyV::new(n));
        let commits = crng.below(n as u64 + 1) as usize; // how far the commit thread gets
        driver.install();
        std::thread::scope(|sc| {
            let d0 = dep.clone();
            let mut r0 = crng.fork();
            sc.spawn(move || {
                let _t = grevm::verif::thread_begin("commit");
                for j in 0..commits {
                    for _ in 0..r0.below(4) { grevm::verif::p0("dep_delay"); }
                    d0.publish_commit(j + 1);
                    grevm::verif::p1("dep_commit_call", j as i64);
                    d0.commit(j);
                }
            });
            for _ in 0..workers {
                let d = dep.clone();
                let mut r = crng.fork();
                sc.spawn(move || {
                    let _t = grevm::verif::thread_begin("worker");
                    let ops = r.range(3, 9);
                    for _ in 0..ops {
                        match r.below(10) {
                            0..=2 => { let _ = d.next(); }
                            3..=4 => { let _ = d.remove(r.below(n as u64) as usize, r.chance(1, 2)); }
                            5..=6 => { d.key_tx(r.below(n as u64) as usize); }
                            7..=8 => {
                                let x = r.range(1, n as u64 - 1) as usize;
                                let dd = r.below(x as u64) as usize;
                                d.add(x, Some(dd));
                            }
                            _ => d.add(r.below(n as u64) as usize, None),
                        }
                    }
                });
            }
        });
        Driver::uninstall();
        let rep = driver.report();
        let (states, affects, index) = dep.snapshot();
        writeln!(text, "# case {case} n={n} workers={workers} commits={commits} failure={:?} final_index={index} states={states:?} affects={affects:?}", rep.failure).unwrap();
        text.push_str(&trace_lines(&rep.trace));
        text.push_str("--\n");
    }
    std::fs::write(out, text).unwrap();
}
