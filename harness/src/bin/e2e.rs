//! End-to-end driven runs: block generator -> stock-revm oracle -> grevm under the deterministic
//! driver (or free-threaded) -> comparison; traces are written for the Coq acceptor.
//! usage: e2e sweep <seed> <count> <outdir> [key=value ...]
//!   keys: txs=lo..hi workers=a,b,c opts=invalid,destroy,create,ben,shared strat=random|pct|mix
//!         trace=0|1 free=0|1 maxsteps=N dbpoints=0|1
use std::{collections::HashMap, fs, io::Write};
use verif_harness::{
    driver::{Pct, RandomWalk, Straggler, Strategy, trace_lines},
    e2e::*,
    rng::Rng,
};

fn strategy(kind: &str, rng: &mut Rng) -> Box<dyn Strategy> {
    match kind {
        "pct" => Box::new(Pct::new(rng.fork(), 3, 400)),
        "sticky" => Box::new(RandomWalk { rng: rng.fork(), stay: 85 }),
        "straggler" => Box::new(Straggler::new(rng.fork(), 2, 250)),
        "slowdb" => Box::new(Straggler::slow_db(rng.fork(), 3, 300)),
        "slowwriter" => Box::new(Straggler::slow_writer(rng.fork(), 4, 200)),
        _ => Box::new(RandomWalk { rng: rng.fork(), stay: 30 }),
    }
}

fn main() {
    let a: Vec<String> = std::env::args().collect();
    assert!(a.len() >= 5 && (a[1] == "sweep" || a[1] == "one" || a[1] == "matrix"), "usage: e2e sweep <seed> <count> <outdir> [k=v...] | e2e one <block_seed> <sched_seed> <outdir> [k=v...]");
    let seed: u64 = a[2].parse().unwrap();
    let count: u64 = a[3].parse().unwrap();
    let outdir = &a[4];
    let kv: HashMap<String, String> = a[5..].iter().filter_map(|s| s.split_once('=').map(|(k, v)| (k.to_owned(), v.to_owned()))).collect();
    let get = |k: &str, d: &str| kv.get(k).cloned().unwrap_or_else(|| d.to_owned());
    let txr = get("txs", "2..6");
    let (tlo, thi) = txr.split_once("..").map(|(a, b)| (a.parse::<u64>().unwrap(), b.parse::<u64>().unwrap())).unwrap();
    let workers: Vec<usize> = get("workers", "1,2,3").split(',').map(|s| s.parse().unwrap()).collect();
    let optsv = get("opts", "invalid,destroy,create,ben,shared");
    let strat = get("strat", "mix");
    let want_trace = get("trace", "1") == "1";
    let free = get("free", "0") == "1";
    let maxsteps: u64 = get("maxsteps", "60000").parse().unwrap();
    let dbpoints = get("dbpoints", "1") == "1";
    let faults = get("faults", "0") == "1";
    // panics=1: the database panics at one of the reads in-order execution performs
    let panics = get("panics", "0") == "1";
    if panics {
        std::panic::set_hook(Box::new(|_| {}));
    }
    // stop a sweep after this many failing cases (a hang costs real time per case)
    let maxfail: u64 = get("maxfail", "6").parse().unwrap();
    // budget=<seconds>: stop taking new cases after this much real time (a loaded machine truncates
    // the sample instead of tripping the caller's time limit)
    let budget: u64 = get("budget", "0").parse().unwrap();
    let t_start = std::time::Instant::now();
    fs::create_dir_all(outdir).unwrap();
    let mut summary = fs::File::create(format!("{outdir}/summary.txt")).unwrap();
    let mut rng = Rng::new(seed);
    let (mut mismatches, mut failures) = (0u64, 0u64);
    if a[1] == "matrix" {
        // config matrix (C06): every block under several configurations; all must equal the oracle
        let mut paths: HashMap<String, u64> = HashMap::new();
        let mut done = 0u64;
        for case in 0..count {
            let block_seed = rng.next();
            let mut crng = Rng(block_seed);
            let n = crng.range(tlo, thi) as usize;
            let opts = GenOpts { invalid: crng.chance(1, 2), destroy: crng.chance(1, 2), create: crng.chance(1, 2), beneficiary_roles: true, shared_callers: crng.chance(1, 2), chain: false, cb: false, multi: false, empty_ben: crng.chance(1, 3), auth: false, maxn: false };
            let (world, block) = gen_block(&mut crng, n, opts);
            let mut orc = oracle(&world.db, &block);
            // half of the blocks run on a database with a persistent fault on a key in-order
            // execution reads: the failing index and the committed prefix must not depend on the
            // configuration either
            if crng.chance(1, 2) {
                let reads: Vec<DbKey> = world.db.reads.lock().unwrap().clone();
                if !reads.is_empty() {
                    let key = crng.pick(&reads).clone();
                    world.db.faults.lock().unwrap().insert(key, FaultMode::Persistent);
                    orc = oracle(&world.db.clone_data(), &block);
                }
            }
            let cfgs: Vec<(&str, RunCfg, bool)> = vec![
                ("w1-driven", RunCfg { workers: 1, ..Default::default() }, true),
                ("w3-driven", RunCfg { workers: 3, ..Default::default() }, true),
                ("w2-driven-b", RunCfg { workers: 2, ..Default::default() }, true),
                ("w16-free", RunCfg { workers: 16, ..Default::default() }, false),
                ("w4-free", RunCfg { workers: 4, ..Default::default() }, false),
                ("threshold-n", RunCfg { workers: 2, min_parallel_txs: n, ..Default::default() }, false),
                ("threshold-n+1", RunCfg { workers: 2, min_parallel_txs: n + 1, ..Default::default() }, false),
                ("force-seq", RunCfg { workers: 2, force_sequential: true, ..Default::default() }, false),
                ("fallback-entry", RunCfg { workers: 2, fallback_entry: true, ..Default::default() }, false),
            ];
            let mut taken = Vec::new();
            for (name, rc, driven) in cfgs {
                let mut db = world.db.clone_data();
                db.points = driven;
                let st = if driven { Some(strategy("random", &mut crng)) } else { None };
                let run = run_grevm(db, &block, &rc, st, maxsteps);
                let diffs = compare(&orc, &run.result);
                let path = match &run.report {
                    Some(r) => if r.trace.iter().any(|e| e.kind == "seq_exec") { if r.trace.iter().any(|e| e.kind == "commit_done") { "parallel+replay" } else { "sequential" } } else { "parallel" },
                    None => "free",
                };
                taken.push(path);
                *paths.entry(format!("{name}:{path}")).or_default() += 1;
                if !diffs.is_empty() {
                    mismatches += 1;
                    let mut f = fs::File::create(format!("{outdir}/fail-{case}-{name}.txt")).unwrap();
                    writeln!(f, "matrix case {case} block_seed={block_seed} config={name}\ndescr: {:#?}\ndiffs: {:#?}", block.descr, diffs).unwrap();
                }
            }
            taken.sort(); taken.dedup();
            writeln!(summary, "case {case} block_seed={block_seed} n={n} paths={}", taken.join("+")).unwrap();
            done = case + 1;
            if budget > 0 && t_start.elapsed().as_secs() >= budget {
                writeln!(summary, "stopped: time budget of {budget} s used after {done} of {count} cases").unwrap();
                break;
            }
        }
        println!("cases={done} mismatches={mismatches} driver_failures=0 paths={paths:?}");
        return;
    }
    let cases: Vec<(u64, u64)> = if a[1] == "one" {
        // e2e one <block_seed> <sched_seed> <outdir> ...: replay exactly one (block, schedule)
        vec![(seed, count)]
    } else {
        (0..count).map(|_| { let b = rng.next(); let s = rng.next(); (b, s) }).collect()
    };
    for (case, (block_seed, sched_seed)) in cases.iter().copied().enumerate() {
        let mut crng = Rng(block_seed);
        let n = crng.range(tlo, thi) as usize;
        let opts = GenOpts {
            invalid: optsv.contains("invalid") && (crng.chance(1, 2) || optsv.contains("forceinvalid")),
            destroy: optsv.contains("destroy") && crng.chance(1, 2),
            create: optsv.contains("create") && crng.chance(1, 2),
            beneficiary_roles: optsv.contains("ben"),
            shared_callers: optsv.contains("shared") && crng.chance(1, 2),
            chain: optsv.contains("chain"),
            cb: optsv.contains("cb"),
            multi: optsv.contains("multi"),
            empty_ben: optsv.contains("emptyben"),
            auth: optsv.contains("auth"),
            maxn: optsv.contains("maxn"),
        };
        let (mut world, block) = gen_block(&mut crng, n, opts);
        world.db.points = dbpoints && !free;
        let mut orc = oracle(&world.db, &block);
        let mut fault = None;
        let clean = orc.clone();
        if panics {
            let reads: Vec<DbKey> = world.db.reads.lock().unwrap().clone();
            if !reads.is_empty() {
                let key = crng.pick(&reads).clone();
                world.db.faults.lock().unwrap().insert(key.clone(), FaultMode::Panic);
                fault = Some((key, FaultMode::Panic));
            }
        } else if faults {
            let reads: Vec<DbKey> = world.db.reads.lock().unwrap().clone();
            let (key, mode) = pick_fault(&mut crng, &world, &reads);
            world.db.faults.lock().unwrap().insert(key.clone(), mode);
            orc = oracle(&world.db.clone_data(), &block);
            fault = Some((key, mode));
        }
        let mut srng = Rng(sched_seed);
        let w = *srng.pick(&workers);
        let rc = RunCfg { workers: w, ..Default::default() };
        let sk = if strat == "mix" { *srng.pick(&["random", "sticky", "pct"]) } else if strat == "mix2" { *srng.pick(&["random", "sticky", "pct", "straggler", "straggler", "slowdb"]) } else { strat.as_str() };
        let st = if free { None } else { Some(strategy(sk, &mut srng)) };
        let run = run_grevm(world.db.clone_data(), &block, &rc, st, maxsteps);
        let diffs = match &fault {
            Some((_, mode)) => {
                let mut clean_db = world.db.clone_data();
                clean_db.faults.lock().unwrap().clear();
                fault_verdict(&clean_db, &block, *mode, &clean, &orc, &run.result)
            }
            None => compare(&orc, &run.result),
        };
        let fail = run.report.as_ref().and_then(|r| r.failure.clone());
        let steps = run.report.as_ref().map_or(0, |r| r.steps);
        writeln!(summary, "case {case} block_seed={block_seed} sched_seed={sched_seed} n={n} workers={w} strat={sk} steps={steps} spec={:?} fault={:?} diffs={} failure={:?}", block.spec, fault, diffs.len(), fail).unwrap();
        if !diffs.is_empty() || fail.is_some() || run.panicked.is_some() {
            if !diffs.is_empty() { mismatches += 1; }
            if fail.is_some() { failures += 1; }
            let mut f = fs::File::create(format!("{outdir}/fail-{case}.txt")).unwrap();
            writeln!(f, "case {case} block_seed={block_seed} sched_seed={sched_seed} workers={w} strat={sk} fault={fault:?}\nblock: {:?}\ndescr: {:#?}\ndiffs: {:#?}\nfailure: {:?}\npanicked: {:?}\noracle: {:?}\ngrevm: {:?}", block.spec, block.descr, diffs, fail, run.panicked, orc.result, run.result.result).unwrap();
            if let Some(r) = &run.report {
                writeln!(f, "trace:\n{}", trace_lines(&r.trace)).unwrap();
            }
        }
        if mismatches + failures >= maxfail {
            writeln!(summary, "stopped after {} failing cases", mismatches + failures).unwrap();
            break;
        }
        if budget > 0 && t_start.elapsed().as_secs() >= budget {
            writeln!(summary, "stopped: time budget of {budget} s used after {} of {} cases", case + 1, cases.len()).unwrap();
            break;
        }
        if want_trace {
            if let Some(r) = &run.report {
                let mut f = fs::File::create(format!("{outdir}/trace-{case}.txt")).unwrap();
                f.write_all(trace_header(&world.db, &block, &run.dict, w, &orc.ben_before).as_bytes()).unwrap();
                f.write_all(trace_lines(&r.trace).as_bytes()).unwrap();
                writeln!(f, "# oracle result={:?}", orc.result).unwrap();
                for (i, o) in orc.outcomes.iter().enumerate() {
                    writeln!(f, "# oracle outcome {i} {o}").unwrap();
                }
                writeln!(f, "# grevm result={:?} outcomes={}", run.result.result, run.result.outcomes.len()).unwrap();
            }
        }
    }
    println!("cases={} mismatches={mismatches} driver_failures={failures}", cases.len());
}
