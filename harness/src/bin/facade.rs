//! C11 correspondence driver: the capability-restricted precompile facade and its adapter.
//!
//! usage: facade <seed> <n_adapter> <n_block> <outdir> [only_block_case]
//!
//! Writes <outdir>/facade.in (cases for the extracted model), facade.impl (what the real code did),
//! facade.direct (JSON lines: failures of model-independent predicates, with the failing input)
//! and facade.stats (JSON).
//!
//! Streams (all derived from <seed>):
//!  fac    adapter level: the REAL adapter (`DynParallelPrecompile::to_alloy`, called the way
//!         alloy calls it, on a real revm context over a logging database with an injected fault
//!         plan, as the crate's own unit tests build it) runs a scripted precompile body - a list
//!         of facade operations, each propagating (`?`) or ignoring its error, then the
//!         implementation's own return (success / revert / halt / fatal).  A twin context runs a
//!         reference facade written from the property text directly on alloy's `EvmInternals`.
//!         Compared: every operation's result, the database reads, the complete journal
//!         (entries + state) after the call and after reverting an enclosing checkpoint, the
//!         adapter's result.  The extracted Coq model runs the same script with the journal's
//!         answers as observed on the twin.
//!  blk    block level: generated blocks mixing calls of a scripted test precompile (direct,
//!         through CALL / STATICCALL / DELEGATECALL / CALLCODE, nested, in reverting frames,
//!         touching the beneficiary, senders and a counter contract other transactions use) with
//!         ordinary transactions, through the public `Scheduler` API: parallel (several worker
//!         counts, repeated) vs forced sequential vs stock revm in order with the same adapters
//!         installed; per-attempt observation logs from inside the precompile.
use alloy_evm::{
    EvmInternals,
    eth::EthEvmContext,
    precompiles::{Precompile as AlloyPrecompile, PrecompileInput, PrecompilesMap},
};
use grevm::{
    DelegatedSafetyConfig, DynParallelPrecompile, ParallelPrecompileError, ParallelPrecompileInput, ParallelPrecompileResult,
    TxExecutionOutcome,
};
use revm::{
    Database,
    bytecode::Bytecode,
    context::{BlockEnv, CfgEnv, TxEnv},
    handler::EthPrecompiles,
    precompile::{PrecompileError, PrecompileHalt, PrecompileId, PrecompileOutput, PrecompileResult},
    primitives::{Address, B256, Bytes, KECCAK_EMPTY, TxKind, U256, hardfork::SpecId},
    state::AccountInfo,
};
use std::{
    collections::{BTreeMap, HashMap, HashSet},
    fmt::{self, Write as _},
    fs,
    sync::{Arc, Mutex},
};
use verif_harness::{
    guard_common::{self as gc, BlockResult, MemDb},
    rng::Rng,
};

struct Out {
    inp: String,
    imp: String,
    direct: Vec<String>,
    stats: BTreeMap<String, u64>,
}
impl Out {
    fn bump(&mut self, k: &str) {
        *self.stats.entry(k.to_owned()).or_insert(0) += 1;
    }
    fn add(&mut self, k: &str, n: u64) {
        *self.stats.entry(k.to_owned()).or_insert(0) += n;
    }
    fn line(&mut self, case: String, imp: String) {
        self.inp.push_str(&case);
        self.inp.push('\n');
        self.imp.push_str(&imp);
        self.imp.push('\n');
    }
    fn fail(&mut self, kind: &str, detail: String, replay: String) {
        let esc = |s: &str| s.replace('\\', "\\\\").replace('"', "\\\"").replace('\n', "\\n").replace('\t', " ");
        self.direct.push(format!("{{\"kind\":\"{}\",\"detail\":\"{}\",\"replay\":\"{}\"}}", esc(kind), esc(detail.get(..6000).unwrap_or(&detail)), esc(&replay)));
    }
}

// =================================================================================================
// adapter level

#[derive(Clone, Debug, PartialEq, Eq, Hash)]
enum DbKey {
    Basic(Address),
    Storage(Address, U256),
}

#[derive(Debug)]
struct LogDbErr(String);
impl fmt::Display for LogDbErr {
    fn fmt(&self, f: &mut fmt::Formatter<'_>) -> fmt::Result {
        write!(f, "injected database failure {}", self.0)
    }
}
impl std::error::Error for LogDbErr {}
impl revm::database::DBErrorMarker for LogDbErr {}

#[derive(Debug, Clone)]
struct LogDb {
    accounts: HashMap<Address, AccountInfo>,
    storage: HashMap<(Address, U256), U256>,
    fail: HashSet<DbKey>,
    log: Arc<Mutex<Vec<String>>>,
}

impl Database for LogDb {
    type Error = LogDbErr;
    fn basic(&mut self, a: Address) -> Result<Option<AccountInfo>, LogDbErr> {
        self.log.lock().unwrap().push(format!("basic {a:x}"));
        if self.fail.contains(&DbKey::Basic(a)) {
            return Err(LogDbErr(format!("basic {a:x}")));
        }
        Ok(self.accounts.get(&a).cloned())
    }
    fn code_by_hash(&mut self, h: B256) -> Result<Bytecode, LogDbErr> {
        self.log.lock().unwrap().push(format!("code {h:x}"));
        Ok(Bytecode::default())
    }
    fn storage(&mut self, a: Address, k: U256) -> Result<U256, LogDbErr> {
        self.log.lock().unwrap().push(format!("storage {a:x} {k:x}"));
        if self.fail.contains(&DbKey::Storage(a, k)) {
            return Err(LogDbErr(format!("storage {a:x} {k:x}")));
        }
        Ok(self.storage.get(&(a, k)).copied().unwrap_or_default())
    }
    fn block_hash(&mut self, n: u64) -> Result<B256, LogDbErr> {
        Ok(B256::with_last_byte(n as u8))
    }
}

#[derive(Clone, Copy, Debug, PartialEq, Eq)]
enum OpKind {
    Balance,
    Sload,
    SetBalance,
    Sstore,
}

#[derive(Clone, Copy, Debug)]
struct Op {
    kind: OpKind,
    a: Address,
    k: U256,
    v: U256,
    propagate: bool,
}

#[derive(Clone, Debug)]
enum ImplRet {
    Ok(u64, Vec<u8>),
    Revert(u64),
    Halt(PrecompileHalt),
    Fatal(String),
}

const STATIC_MSG: &str = "state change during static call";

fn a_addr(i: u64) -> Address {
    Address::with_last_byte(0x40 + i as u8)
}
const A_PRECOMPILE: Address = Address::with_last_byte(0xfe);

#[derive(Clone, Debug)]
enum PreOp {
    Warm(Address),
    Store(Address, U256, U256),
}

struct ACase {
    /// data, gas, caller, value, target, bytecode address as alloy passes them
    meta: (Vec<u8>, u64, Address, U256, Address, Address),
    is_static: bool,
    reservoir: u64,
    ops: Vec<Op>,
    ret: ImplRet,
    db: LogDb,
    pre: Vec<PreOp>,
    checkpoint: bool,
}

fn gen_acase(rng: &mut Rng, boundary: bool) -> ACase {
    let mut accounts = HashMap::new();
    let mut storage = HashMap::new();
    for i in 0..6u64 {
        if rng.chance(2, 3) {
            accounts.insert(a_addr(i), AccountInfo { balance: U256::from(rng.below(1000)), nonce: rng.below(3), code_hash: KECCAK_EMPTY, code: None, ..Default::default() });
            for k in 0..4u64 {
                if rng.chance(1, 2) {
                    storage.insert((a_addr(i), U256::from(k)), U256::from(rng.range(1, 99)));
                }
            }
        }
    }
    let mut fail = HashSet::new();
    if rng.chance(1, 2) {
        for _ in 0..rng.range(1, 2) {
            match rng.below(4) {
                0 => fail.insert(DbKey::Basic(a_addr(3))),
                1 => fail.insert(DbKey::Basic(a_addr(4))),
                2 => fail.insert(DbKey::Storage(a_addr(2), U256::from(2))),
                _ => fail.insert(DbKey::Storage(a_addr(1), U256::from(3))),
            };
        }
    }
    let mut pre = Vec::new();
    for _ in 0..rng.below(4) {
        let a = a_addr(rng.below(3));
        if rng.chance(1, 2) {
            pre.push(PreOp::Warm(a));
        } else {
            pre.push(PreOp::Store(a, U256::from(rng.below(2)), U256::from(rng.below(50))));
        }
    }
    let n = if boundary { *rng.pick(&[0u64, 1, 12]) } else { rng.range(1, 8) };
    let ops = (0..n)
        .map(|_| {
            let kind = *rng.pick(&[OpKind::Balance, OpKind::Sload, OpKind::SetBalance, OpKind::Sstore]);
            Op {
                kind,
                a: a_addr(rng.below(6)),
                k: U256::from(rng.below(4)),
                v: match rng.below(5) {
                    0 => U256::ZERO,
                    1 => U256::MAX,
                    _ => U256::from(rng.below(1000)),
                },
                propagate: rng.chance(1, 2),
            }
        })
        .collect();
    let ret = match rng.below(6) {
        0 => ImplRet::Halt(PrecompileHalt::OutOfGas),
        1 => ImplRet::Halt(PrecompileHalt::other_static("implementation halt")),
        2 => ImplRet::Fatal("implementation fatal".into()),
        3 => ImplRet::Revert(rng.below(100)),
        _ => ImplRet::Ok(rng.below(5000), vec![rng.below(256) as u8; rng.below(4) as usize]),
    };
    let target = if rng.chance(1, 3) { a_addr(rng.below(6)) } else { A_PRECOMPILE };
    ACase {
        meta: (
            (0..rng.below(5)).map(|_| rng.below(256) as u8).collect(),
            *rng.pick(&[0u64, 100_000, u64::MAX]),
            Address::with_last_byte(rng.below(256) as u8),
            U256::from(rng.below(3)),
            target,
            A_PRECOMPILE,
        ),
        is_static: rng.chance(1, 3),
        reservoir: *rng.pick(&[0u64, 7, 1 << 40, u64::MAX]),
        ops,
        ret,
        db: LogDb { accounts, storage, fail, log: Arc::new(Mutex::new(Vec::new())) },
        pre,
        checkpoint: rng.chance(1, 2),
    }
}

fn impl_result(ret: &ImplRet, reservoir: u64) -> ParallelPrecompileResult {
    match ret {
        ImplRet::Ok(g, b) => Ok(PrecompileOutput::new(*g, Bytes::from(b.clone()), reservoir)),
        ImplRet::Revert(g) => Ok(PrecompileOutput::revert(*g, Bytes::from_static(b"rv"), reservoir)),
        ImplRet::Halt(h) => Err(ParallelPrecompileError::Halt(h.clone())),
        ImplRet::Fatal(m) => Err(ParallelPrecompileError::Fatal(PrecompileError::Fatal(m.clone()))),
    }
}

fn snapshot(ctx: &EthEvmContext<LogDb>) -> String {
    let j = &ctx.journaled_state;
    let mut s = String::new();
    let st: BTreeMap<_, _> = j.inner.state.iter().collect();
    for (a, acc) in st {
        write!(s, "[{a:x} bal={:x} nonce={} code={:x} status={:?} tx={:?}", acc.info.balance, acc.info.nonce, acc.info.code_hash, acc.status, acc.transaction_id).unwrap();
        let slots: BTreeMap<_, _> = acc.storage.iter().collect();
        for (k, v) in slots {
            write!(s, " {k:x}:{:x}/{:x}/cold={}", v.present_value, v.original_value, v.is_cold).unwrap();
        }
        s.push(']');
    }
    write!(s, " journal={:?} depth={} logs={}", j.inner.journal, j.inner.depth, j.inner.logs.len()).unwrap();
    s
}

fn prepare(c: &ACase) -> (EthEvmContext<LogDb>, Option<revm_context::journaled_state::JournalCheckpoint>) {
    use revm::context::JournalTr;
    let mut db = c.db.clone();
    db.log = Arc::new(Mutex::new(Vec::new()));
    let mut ctx = EthEvmContext::new(db, SpecId::PRAGUE);
    for p in &c.pre {
        match p {
            PreOp::Warm(a) => {
                let _ = ctx.journaled_state.load_account(*a);
            }
            PreOp::Store(a, k, v) => {
                if ctx.journaled_state.load_account(*a).is_ok() {
                    let _ = ctx.journaled_state.sstore(*a, *k, *v);
                }
            }
        }
    }
    let cp = if c.checkpoint { Some(ctx.journaled_state.checkpoint()) } else { None };
    (ctx, cp)
}

#[derive(Default, Debug)]
struct BodyLog {
    results: Vec<String>,
    db_len_after: Vec<usize>,
    metadata: String,
}

fn canon_err(e: &ParallelPrecompileError) -> String {
    match e {
        ParallelPrecompileError::Halt(h) => format!("halt {h:?}"),
        ParallelPrecompileError::Fatal(f) => format!("fatal {f:?}"),
    }
}

/// The scripted body, written against the public facade API only.
fn run_script(input: &mut ParallelPrecompileInput<'_>, ops: &[Op], ret: &ImplRet, log: &Mutex<BodyLog>, dblog: &Mutex<Vec<String>>) -> ParallelPrecompileResult {
    let reservoir = input.reservoir();
    log.lock().unwrap().metadata = format!(
        "data={} gas={} reservoir={} caller={:x} value={:x} target={:x} bytecode={:x} static={} direct={}",
        gc::hex(input.data()), input.gas(), input.reservoir(), input.caller(), input.value(), input.target_address(),
        input.bytecode_address(), input.is_static(), input.is_direct_call()
    );
    for op in ops {
        let r: Result<String, ParallelPrecompileError> = match op.kind {
            OpKind::Balance => input.state().balance(op.a).map(|l| format!("ok bal={:x} cold={}", l.data, l.is_cold)),
            OpKind::Sload => input.state().sload(op.a, op.k).map(|l| format!("ok val={:x} cold={}", l.data, l.is_cold)),
            OpKind::SetBalance => input.state().set_balance(op.a, op.v).map(|l| format!("ok set cold={}", l.is_cold)),
            OpKind::Sstore => input.state().sstore(op.a, op.k, op.v).map(|l| format!("ok sstore {:?} cold={}", l.data, l.is_cold)),
        };
        {
            let mut g = log.lock().unwrap();
            g.results.push(match &r {
                Ok(s) => s.clone(),
                Err(e) => canon_err(e),
            });
            g.db_len_after.push(dblog.lock().unwrap().len());
        }
        if let Err(e) = r {
            if op.propagate {
                return Err(e);
            }
        }
    }
    impl_result(ret, reservoir)
}

fn canon_presult(r: &PrecompileResult) -> String {
    match r {
        Ok(o) => format!("Ok status={:?} gas={} refund={} state_gas={} reservoir={} bytes={}", o.status, o.gas_used, o.gas_refunded, o.state_gas_used, o.reservoir, gc::hex(&o.bytes)),
        Err(e) => format!("Err {e:?}"),
    }
}

struct ARun {
    metadata: String,
    caching: bool,
    results: Vec<String>,
    db_len_after: Vec<usize>,
    dblog: Vec<String>,
    snap: String,
    snap_reverted: Option<String>,
    adapter: String,
    journal_calls: usize,
    answers: Vec<char>,
}

fn real_run(c: &ACase) -> ARun {
    use revm::context::JournalTr;
    let (mut ctx, cp) = prepare(c);
    let dblog = ctx.journaled_state.database.log.clone();
    let log = Arc::new(Mutex::new(BodyLog::default()));
    let (ops, ret, log2, dblog2) = (c.ops.clone(), c.ret.clone(), log.clone(), dblog.clone());
    let pc = DynParallelPrecompile::new(PrecompileId::custom("verif-script"), move |input| run_script(input, &ops, &ret, &log2, &dblog2));
    let alloy = pc.to_alloy();
    let caching = AlloyPrecompile::supports_caching(&alloy);
    let r = AlloyPrecompile::call(
        &alloy,
        PrecompileInput {
            data: &c.meta.0,
            gas: c.meta.1,
            reservoir: c.reservoir,
            caller: c.meta.2,
            value: c.meta.3,
            target_address: c.meta.4,
            is_static: c.is_static,
            bytecode_address: c.meta.5,
            internals: EvmInternals::from_context(&mut ctx),
        },
    );
    let snap = snapshot(&ctx);
    let snap_reverted = cp.map(|cp| {
        ctx.journaled_state.checkpoint_revert(cp);
        snapshot(&ctx)
    });
    let g = log.lock().unwrap();
    ARun {
        metadata: g.metadata.clone(),
        caching,
        results: g.results.clone(),
        db_len_after: g.db_len_after.clone(),
        dblog: dblog.lock().unwrap().clone(),
        snap,
        snap_reverted,
        adapter: canon_presult(&r),
        journal_calls: 0,
        answers: Vec::new(),
    }
}

/// Reference facade + reference adapter, written from the property text, directly on alloy's
/// `EvmInternals` (the journal operations the facade is allowed to use).
fn twin_run(c: &ACase) -> ARun {
    use revm::context::JournalTr;
    let (mut ctx, cp) = prepare(c);
    let dblog = ctx.journaled_state.database.log.clone();
    let mut results = Vec::new();
    let mut db_len_after = Vec::new();
    let mut answers = Vec::new();
    let mut journal_calls = 0usize;
    let mut fault: Option<ParallelPrecompileError> = None;
    let mut early: Option<ParallelPrecompileError> = None;
    {
        let mut internals = EvmInternals::from_context(&mut ctx);
        for op in &c.ops {
            let mutator = matches!(op.kind, OpKind::SetBalance | OpKind::Sstore);
            let r: Result<String, ParallelPrecompileError> = if let Some(f) = &fault {
                answers.push('u');
                Err(f.clone())
            } else if mutator && c.is_static {
                answers.push('u');
                let f = ParallelPrecompileError::Halt(PrecompileHalt::other_static(STATIC_MSG));
                fault = Some(f.clone());
                Err(f)
            } else {
                journal_calls += 1;
                let r = match op.kind {
                    OpKind::Balance => internals.load_account(op.a).map(|l| format!("ok bal={:x} cold={}", l.data.info.balance, l.is_cold)),
                    OpKind::Sload => internals.sload(op.a, op.k).map(|l| format!("ok val={:x} cold={}", l.data, l.is_cold)),
                    OpKind::SetBalance => internals.load_account_mut(op.a).map(|mut l| {
                        l.data.set_balance(op.v);
                        format!("ok set cold={}", l.is_cold)
                    }),
                    OpKind::Sstore => internals.sstore(op.a, op.k, op.v).map(|l| format!("ok sstore {:?} cold={}", l.data, l.is_cold)),
                };
                match r {
                    Ok(s) => {
                        answers.push('o');
                        Ok(s)
                    }
                    Err(e) => {
                        answers.push('e');
                        let f = ParallelPrecompileError::Fatal(PrecompileError::Fatal(e.to_string()));
                        fault = Some(f.clone());
                        Err(f)
                    }
                }
            };
            results.push(match &r {
                Ok(s) => s.clone(),
                Err(e) => canon_err(e),
            });
            db_len_after.push(dblog.lock().unwrap().len());
            if let Err(e) = r {
                if op.propagate {
                    early = Some(e);
                    break;
                }
            }
        }
    }
    let body = match early {
        Some(e) => Err(e),
        None => impl_result(&c.ret, c.reservoir),
    };
    let decided = match fault {
        Some(f) => Err(f),
        None => body,
    };
    let adapter: PrecompileResult = match decided {
        Ok(o) => Ok(o),
        Err(ParallelPrecompileError::Halt(h)) => Ok(PrecompileOutput::halt(h, c.reservoir)),
        Err(ParallelPrecompileError::Fatal(e)) => Err(e),
    };
    let snap = snapshot(&ctx);
    let snap_reverted = cp.map(|cp| {
        ctx.journaled_state.checkpoint_revert(cp);
        snapshot(&ctx)
    });
    while answers.len() < c.ops.len() {
        answers.push('u');
    }
    let metadata = format!(
        "data={} gas={} reservoir={} caller={:x} value={:x} target={:x} bytecode={:x} static={} direct={}",
        gc::hex(&c.meta.0), c.meta.1, c.reservoir, c.meta.2, c.meta.3, c.meta.4, c.meta.5, c.is_static, c.meta.4 == c.meta.5
    );
    ARun { metadata, caching: false, results, db_len_after, dblog: dblog.lock().unwrap().clone(), snap, snap_reverted, adapter: canon_presult(&adapter), journal_calls, answers }
}

fn class_of_result(s: &str) -> &'static str {
    if s.starts_with("ok") {
        "ok"
    } else if s.starts_with("halt") && s.contains(STATIC_MSG) {
        "H"
    } else if s.starts_with("halt") {
        "h"
    } else if s.starts_with("fatal") && s.contains("injected database failure") {
        "F"
    } else {
        "f"
    }
}

fn class_of_adapter(s: &str, c: &ACase) -> String {
    if s.starts_with("Err") {
        if s.contains("injected database failure") { "FATAL:db".into() } else { "FATAL:impl".into() }
    } else if s.contains("status=Halt") {
        if s.contains(STATIC_MSG) { format!("HALT:static:{}", c.reservoir) } else { format!("HALT:impl:{}", c.reservoir) }
    } else if s.contains("status=Revert") {
        "REVERT".into()
    } else {
        "OK".into()
    }
}

fn adapter_case(idx: u64, rng: &mut Rng, out: &mut Out) {
    let c = gen_acase(rng, idx % 7 == 6);
    let real = real_run(&c);
    let twin = twin_run(&c);
    let descr = format!(
        "adapter case {idx}: static={} reservoir={} checkpoint={} ret={:?} fail={:?} pre={:?} ops={:?}",
        c.is_static, c.reservoir, c.checkpoint, c.ret, c.db.fail, c.pre,
        c.ops.iter().map(|o| format!("{:?}({:x},{:x},{:x}){}", o.kind, o.a, o.k, o.v, if o.propagate { "?" } else { "_" })).collect::<Vec<_>>()
    );
    // ---- model-independent predicates ----
    if real.metadata != twin.metadata {
        out.fail("adapter-metadata-not-forwarded", format!("implementation saw `{}`, alloy passed `{}`", real.metadata, twin.metadata), descr.clone());
    }
    if real.caching {
        out.fail("adapter-enables-result-caching", "supports_caching() is true: alloy would reuse a result computed from other journal state".into(), descr.clone());
    }
    let first_fault = twin.results.iter().position(|r| !r.starts_with("ok"));
    if real.results != twin.results {
        let i = real.results.iter().zip(twin.results.iter()).position(|(a, b)| a != b).unwrap_or(real.results.len().min(twin.results.len()));
        out.fail("operation-result-differs-from-reference-facade", format!("op {i}: real `{}` reference `{}`", real.results.get(i).map_or("<none>", |s| s), twin.results.get(i).map_or("<none>", |s| s)), descr.clone());
    }
    if real.dblog != twin.dblog {
        let kind = match first_fault {
            Some(f) if real.db_len_after.get(f).copied().unwrap_or(0) < real.dblog.len() && real.db_len_after.len() > f + 1 && real.db_len_after[f] != *real.db_len_after.last().unwrap() => "journal-reached-after-fault",
            _ => "database-reads-differ-from-reference-facade",
        };
        out.fail(kind, format!("real reads {:?} reference reads {:?}", real.dblog, twin.dblog), descr.clone());
    }
    if real.snap != twin.snap {
        let kind = if c.is_static && twin.results.iter().any(|r| r.contains(STATIC_MSG)) { "journal-changed-in-static-context-or-after-fault" } else { "journal-differs-from-reference-facade" };
        out.fail(kind, format!("real `{}` reference `{}`", real.snap, twin.snap), descr.clone());
    }
    if real.snap_reverted != twin.snap_reverted {
        out.fail("journal-after-checkpoint-revert-differs", format!("real `{:?}` reference `{:?}`", real.snap_reverted, twin.snap_reverted), descr.clone());
    }
    if real.adapter != twin.adapter {
        let kind = if first_fault.is_some() { "recorded-fault-not-enforced-by-adapter" } else { "adapter-result-differs-from-reference" };
        out.fail(kind, format!("real `{}` reference `{}`", real.adapter, twin.adapter), descr.clone());
    }
    // ---- lines for the extracted model ----
    let effects_equal = real.dblog == twin.dblog && real.snap == twin.snap;
    let mut case = format!("fac {} {} {}", c.is_static as u8, c.reservoir, match &c.ret {
        ImplRet::Ok(..) => "O",
        ImplRet::Revert(..) => "R",
        ImplRet::Halt(..) => "H",
        ImplRet::Fatal(..) => "F",
    });
    for (op, ans) in c.ops.iter().zip(twin.answers.iter()) {
        write!(case, " {}{}{}", match op.kind { OpKind::Balance => 'b', OpKind::Sload => 'l', OpKind::SetBalance => 'B', OpKind::Sstore => 'S' }, if op.propagate { 'p' } else { 'i' }, ans).unwrap();
    }
    let mut imp = String::new();
    for r in &real.results {
        write!(imp, "{} ", class_of_result(r)).unwrap();
    }
    write!(imp, "| calls={} | {}", if effects_equal { twin.journal_calls.to_string() } else { "?".into() }, class_of_adapter(&real.adapter, &c)).unwrap();
    out.line(case, imp);
    out.bump(&format!("fac_adapter_{}", class_of_adapter(&real.adapter, &c).split(':').take(2).collect::<Vec<_>>().join(":")));
    out.add("fac_ops", real.results.len() as u64);
    out.add("fac_ops_after_fault", first_fault.map_or(0, |f| real.results.len() - f - 1) as u64);
    if first_fault.is_some() {
        out.bump("fac_cases_with_fault");
    }
    if c.is_static {
        out.bump("fac_static");
    }
}

// =================================================================================================
// block level

const P0: Address = Address::new([0, 0, 0, 0, 0, 0, 0, 0, 0, 0, 0, 0, 0, 0, 0, 0, 0, 0, 0xa0, 0x01]);
const MINER: Address = Address::new([0xc0; 20]);

fn t_addr(i: usize) -> Address {
    Address::from_word(B256::from(U256::from(0x3000 + i as u64)))
}
fn s_addr(i: usize) -> Address {
    Address::from_word(B256::from(U256::from(0x4000 + i as u64)))
}
fn k_addr(i: usize) -> Address {
    Address::from_word(B256::from(U256::from(0x5000 + i as u64)))
}

/// address table of the scripted precompile
fn table(i: u8) -> Address {
    match i % 8 {
        0 => t_addr(0), // the counter contract: ordinary transactions bump its slot 0
        1 => t_addr(1),
        2 => t_addr(2),
        3 => s_addr(0),
        4 => s_addr(1),
        5 => MINER,
        6 => P0,
        _ => t_addr(3), // not in the database
    }
}

#[derive(Default)]
struct Obs {
    /// (tx tag, script bytes, static?, per-op results) per invocation, in completion order
    calls: Mutex<Vec<(u8, Vec<u8>, bool, Vec<String>)>>,
    inconsistent: Mutex<Vec<String>>,
}

/// data = [tag, flags, (kind, addr, key, val)*]; flags bit0 = ignore facade errors, bits 1-2 = return
/// kind (0 success, 1 revert, 2 halt); kinds: 0 balance, 1 sload, 2 set_balance(val), 3 sstore,
/// 4 balance += val, 5 slot += val.
fn script_precompile(obs: Arc<Obs>) -> DynParallelPrecompile {
    DynParallelPrecompile::new(PrecompileId::custom("verif-block-script"), move |input| {
        let data = input.data().to_vec();
        let reservoir = input.reservoir();
        let is_static = input.is_static();
        let n = data.len().saturating_sub(2) / 4;
        let gas = 1000 + 200 * n as u64;
        if gas > input.gas() {
            return Err(PrecompileHalt::OutOfGas.into());
        }
        let tag = data.first().copied().unwrap_or(0);
        let flags = data.get(1).copied().unwrap_or(0);
        let ignore = flags & 1 == 1;
        let mut results = Vec::new();
        let mut outb = Vec::new();
        // what this invocation itself knows: last value read or written per location
        let mut known_bal: HashMap<Address, U256> = HashMap::new();
        let mut known_slot: HashMap<(Address, U256), U256> = HashMap::new();
        let mut fail: Option<ParallelPrecompileError> = None;
        macro_rules! tryop {
            ($e:expr) => {
                match $e {
                    Ok(v) => Some(v),
                    Err(e) => {
                        results.push(canon_err(&e));
                        if !ignore {
                            fail = Some(e);
                        }
                        None
                    }
                }
            };
        }
        for c in data[2.min(data.len())..].chunks_exact(4) {
            if fail.is_some() {
                break;
            }
            let (kind, a, k, v) = (c[0] % 6, table(c[1]), U256::from(c[2] % 3), U256::from(c[3]));
            let st = input.state();
            match kind {
                0 | 4 => {
                    if let Some(l) = tryop!(st.balance(a)) {
                        if let Some(prev) = known_bal.get(&a) {
                            if *prev != l.data {
                                obs.inconsistent.lock().unwrap().push(format!("tag {tag}: balance({a:x}) read {:x} after {:x} in one call", l.data, prev));
                            }
                        }
                        known_bal.insert(a, l.data);
                        results.push(format!("bal {a:x}={:x} cold={}", l.data, l.is_cold));
                        outb.extend_from_slice(&l.data.to_be_bytes::<32>());
                        if kind == 4 {
                            let nv = l.data.saturating_add(v);
                            if let Some(l2) = tryop!(input.state().set_balance(a, nv)) {
                                known_bal.insert(a, nv);
                                results.push(format!("setbal {a:x}={nv:x} cold={}", l2.is_cold));
                            }
                        }
                    }
                }
                1 | 5 => {
                    if let Some(l) = tryop!(st.sload(a, k)) {
                        if let Some(prev) = known_slot.get(&(a, k)) {
                            if *prev != l.data {
                                obs.inconsistent.lock().unwrap().push(format!("tag {tag}: sload({a:x},{k:x}) read {:x} after {:x} in one call", l.data, prev));
                            }
                        }
                        known_slot.insert((a, k), l.data);
                        results.push(format!("sload {a:x}[{k:x}]={:x} cold={}", l.data, l.is_cold));
                        outb.extend_from_slice(&l.data.to_be_bytes::<32>());
                        if kind == 5 {
                            let nv = l.data.wrapping_add(v);
                            if let Some(l2) = tryop!(input.state().sstore(a, k, nv)) {
                                known_slot.insert((a, k), nv);
                                results.push(format!("sstore {a:x}[{k:x}]={nv:x} {:?} cold={}", l2.data, l2.is_cold));
                            }
                        }
                    }
                }
                2 => {
                    if let Some(l) = tryop!(st.set_balance(a, v)) {
                        known_bal.insert(a, v);
                        results.push(format!("setbal {a:x}={v:x} cold={}", l.is_cold));
                    }
                }
                _ => {
                    if let Some(l) = tryop!(st.sstore(a, k, v)) {
                        known_slot.insert((a, k), v);
                        results.push(format!("sstore {a:x}[{k:x}]={v:x} {:?} cold={}", l.data, l.is_cold));
                    }
                }
            }
        }
        obs.calls.lock().unwrap().push((tag, data.clone(), is_static, results));
        if let Some(e) = fail {
            return Err(e);
        }
        match (flags >> 1) & 3 {
            1 => Ok(PrecompileOutput::revert(gas, Bytes::from(outb), reservoir)),
            2 => Err(PrecompileHalt::other_static("scripted halt").into()),
            _ => Ok(PrecompileOutput::new(gas, Bytes::from(outb), reservoir)),
        }
    })
}

#[derive(Default, Clone)]
struct Asm(Vec<u8>);
impl Asm {
    fn op(&mut self, o: u8) -> &mut Self {
        self.0.push(o);
        self
    }
    fn push(&mut self, v: u64) -> &mut Self {
        let b = v.to_be_bytes();
        let skip = b.iter().take_while(|x| **x == 0).count().min(7);
        self.0.push(0x5f + (8 - skip) as u8);
        self.0.extend_from_slice(&b[skip..]);
        self
    }
    fn push_addr(&mut self, a: Address) -> &mut Self {
        self.0.push(0x73);
        self.0.extend_from_slice(a.as_slice());
        self
    }
}

/// copies calldata to memory 0, calls `target` with it (`kind` = CALL/STATICCALL/DELEGATECALL/
/// CALLCODE opcode), stores success at slot `slot` and the first return word at slot `slot+1`
/// (skipped when `store` is false), then ends with `end` (0 STOP, 1 REVERT, 2 INVALID).
fn caller_code(kind: u8, target: Address, slot: u64, store: bool, end: u8) -> Vec<u8> {
    let mut a = Asm::default();
    a.op(0x36).push(0).push(0).op(0x37); // CALLDATACOPY(0,0,size)
    a.push(32).push(0x100).op(0x36).push(0); // ret size, ret offset, args size, args offset
    if kind == 0xf1 || kind == 0xf2 {
        a.push(0);
    }
    a.push_addr(target).op(0x5a).op(kind);
    if store {
        a.push(slot).op(0x55);
        a.push(0x100).op(0x51).push(slot + 1).op(0x55);
    } else {
        a.op(0x50);
    }
    match end {
        1 => {
            a.push(0).push(0).op(0xfd);
        }
        2 => {
            a.op(0xfe);
        }
        _ => {
            a.op(0x00);
        }
    }
    a.0
}

struct BWorld {
    spec: SpecId,
    db: MemDb,
    txs: Vec<TxEnv>,
    descr: Vec<String>,
}

const N_K: usize = 8;

fn gen_bworld(rng: &mut Rng) -> BWorld {
    let spec = *rng.pick(&[SpecId::SHANGHAI, SpecId::CANCUN, SpecId::PRAGUE, SpecId::PRAGUE, SpecId::OSAKA]);
    let mut db = MemDb { inline_code: rng.chance(1, 2), ..Default::default() };
    let rich = U256::from(10u64).pow(U256::from(18));
    let mut descr = Vec::new();
    // t0: counter contract: slot0 += 1
    let counter = vec![0x60, 0x00, 0x54, 0x60, 0x01, 0x01, 0x60, 0x00, 0x55, 0x00];
    db.put_code(t_addr(0), U256::from(5), 1, Bytecode::new_raw(counter.into()));
    db.storage.insert((t_addr(0), U256::ZERO), U256::from(10));
    db.put_eoa(t_addr(1), U256::from(1000), 1); // nonce 1: revm treats a nonce-0 codeless account as having no storage in the database
    db.put_eoa(t_addr(2), U256::from(7), 0);
    db.storage.insert((t_addr(1), U256::from(1)), U256::from(33));
    for i in 0..4 {
        db.put_eoa(s_addr(i), rich, 0);
    }
    // caller contracts
    let kinds = [
        (0xf1u8, true, 0u8),  // k0 CALL, store, STOP
        (0xfa, true, 0),      // k1 STATICCALL
        (0xf4, true, 0),      // k2 DELEGATECALL
        (0xf2, true, 0),      // k3 CALLCODE
        (0xf1, true, 1),      // k4 CALL then REVERT: the precompile's writes must vanish
        (0xf1, false, 2),     // k5 CALL then INVALID
    ];
    for (i, (kind, store, end)) in kinds.iter().enumerate() {
        let code = caller_code(*kind, P0, 2, *store, *end);
        descr.push(format!("k{i} {:x} code={}", k_addr(i), gc::hex(&code)));
        db.put_code(k_addr(i), U256::from(50), 1, Bytecode::new_raw(code.into()));
    }
    // nested: k6 calls k0 (commits) then k4 (reverts) then bumps its own slot 9; k7 calls k4 then k1
    for (i, (x, y)) in [(6usize, (0usize, 4usize)), (7, (4, 1))] {
        let mut code = caller_code(0xf1, k_addr(x), 2, true, 0);
        code.pop();
        code.extend_from_slice(&caller_code(0xf1, k_addr(y), 4, true, 0));
        code.pop();
        code.extend_from_slice(&[0x60, 0x09, 0x54, 0x60, 0x01, 0x01, 0x60, 0x09, 0x55, 0x00]);
        descr.push(format!("k{i} {:x} code={}", k_addr(i), gc::hex(&code)));
        db.put_code(k_addr(i), U256::from(50), 1, Bytecode::new_raw(code.into()));
    }

    let n_tx = rng.range(4, 14) as usize;
    // a third of the blocks: one account (funded, code-less, nonce 0: t2; the fee recipient; an absent
    // one) is both storage holder and emptied / refilled by the scripts
    let holder: Option<u8> = if rng.chance(1, 3) { Some(*rng.pick(&[2u8, 2, 5, 7])) } else { None };
    if let Some(h) = holder {
        descr.push(format!("holder profile: table[{h}] = {:x}", table(h)));
    }
    let mut nonces = [0u64; 4];
    let mut txs = Vec::new();
    for i in 0..n_tx {
        let s = rng.below(4) as usize;
        let mut tx = TxEnv {
            caller: s_addr(s),
            nonce: nonces[s],
            gas_limit: *rng.pick(&[200_000u64, 500_000, 1_000_000]),
            gas_price: rng.range(1, 3) as u128,
            chain_id: Some(1),
            ..Default::default()
        };
        nonces[s] += 1;
        let r = rng.below(10);
        if r < 7 {
            // a precompile script
            let n = rng.range(1, 5);
            let mut data = vec![i as u8, (rng.below(2) as u8) | (if rng.chance(1, 6) { (rng.range(1, 2) as u8) << 1 } else { 0 })];
            for _ in 0..n {
                if let Some(h) = holder {
                    // holder profile: the precompile keeps state in the storage of one account it
                    // also empties (balance 0 on a code-less nonce-0 account removes the account and
                    // its storage, EIP-161) and refills
                    if rng.chance(2, 3) {
                        let kind = *rng.pick(&[3u8, 3, 5, 1, 1, 2, 2, 0, 4]);
                        let v = if kind == 2 && rng.chance(2, 3) { 0 } else { rng.range(1, 200) as u8 };
                        data.extend_from_slice(&[kind, h, *rng.pick(&[0u8, 0, 1]), v]);
                        continue;
                    }
                }
                // biased towards the hot locations: counter slot 0, t1 balance, s0 balance, the beneficiary
                let kind = *rng.pick(&[0u8, 1, 2, 3, 4, 4, 5, 5, 5]);
                let a = *rng.pick(&[0u8, 0, 0, 1, 1, 3, 5, 5, 2, 4, 6, 7]);
                let k = if a == 0 { *rng.pick(&[0u8, 0, 1]) } else { rng.below(3) as u8 };
                let v = if kind == 2 && rng.chance(1, 8) { 0 } else { rng.range(1, 200) as u8 };
                data.extend_from_slice(&[kind, a, k, v]);
            }
            tx.data = data.into();
            tx.kind = TxKind::Call(if rng.chance(1, 4) { P0 } else { k_addr(rng.below(N_K as u64) as usize) });
            if rng.chance(1, 8) {
                tx.value = U256::from(rng.below(100));
            }
        } else if r < 8 {
            tx.kind = TxKind::Call(t_addr(0)); // ordinary: bump the counter
        } else {
            tx.kind = TxKind::Call(*rng.pick(&[t_addr(1), t_addr(2), s_addr(0), s_addr(1), MINER]));
            tx.value = U256::from(rng.below(1000));
            tx.gas_limit = 50_000;
        }
        txs.push(tx);
    }
    for (i, t) in txs.iter().enumerate() {
        descr.push(format!("tx{i} from={:x} nonce={} to={:?} gas={} price={} value={:x} data={}", t.caller, t.nonce, t.kind, t.gas_limit, t.gas_price, t.value, gc::hex(&t.data)));
    }
    BWorld { spec, db, txs, descr }
}

fn obs_key(o: &(u8, Vec<u8>, bool, Vec<String>)) -> String {
    format!("tag={} static={} data={} -> {:?}", o.0, o.2, gc::hex(&o.1), o.3)
}

fn block_case(idx: u64, rng: &mut Rng, out: &mut Out, seed: u64) {
    let w = gen_bworld(rng);
    let replay = format!("facade {seed} 0 {} <outdir> {idx}   # spec={:?}\n{}", idx + 1, w.spec, w.descr.join("\n"));
    let cfg = CfgEnv::new_with_spec(w.spec);
    let block = BlockEnv { beneficiary: MINER, number: U256::from(10), ..Default::default() };
    let db = Arc::new(w.db.clone());
    let txs = Arc::new(w.txs.clone());

    // oracle: stock revm, in order, the same adapter installed
    let obs_o = Arc::new(Obs::default());
    let pc_o = script_precompile(obs_o.clone());
    let oracle = {
        let evm = gc::stock_evm(&w.db, &cfg, &block, revm::inspector::NoOpInspector {});
        let mut evm = evm.with_precompiles(PrecompilesMap::from_static(EthPrecompiles::new(w.spec).precompiles));
        let alloy = pc_o.to_alloy();
        evm.precompiles.apply_precompile(&P0, move |_| Some(alloy));
        gc::run_stock_on(&mut evm, &w.txs, false, |_, _| {})
    };
    let oracle = match oracle {
        Ok(r) => r,
        Err(e) => {
            out.fail("run-error", format!("stock revm: {e}"), replay.clone());
            return;
        }
    };
    let oracle_res = gc::block_result(&oracle);
    let oracle_obs: Vec<String> = obs_o.calls.lock().unwrap().iter().map(obs_key).collect();
    if !obs_o.inconsistent.lock().unwrap().is_empty() {
        out.fail("harness-oracle-inconsistent-reads", format!("{:?}", obs_o.inconsistent.lock().unwrap()), replay.clone());
    }
    out.add("blk_precompile_calls", oracle_obs.len() as u64);
    out.add("blk_txs", w.txs.len() as u64);
    for o in obs_o.calls.lock().unwrap().iter() {
        if o.2 {
            out.bump("blk_static_calls");
        }
        if o.3.iter().any(|r| r.starts_with("halt") || r.starts_with("fatal")) {
            out.bump("blk_calls_with_fault");
        }
        if o.3.iter().any(|r| r.contains(&format!("{MINER:x}"))) {
            out.bump("blk_calls_touching_beneficiary");
        }
    }

    let runs: Vec<(String, usize)> = {
        let mut v = vec![("sequential".to_owned(), 0usize)];
        for k in 0..rng.range(2, 3) {
            v.push((format!("parallel#{k}"), *rng.pick(&[2usize, 3, 4, 8])));
        }
        v
    };
    for (name, workers) in runs {
        let obs = Arc::new(Obs::default());
        let pcs: gc::Precompiles = Arc::new(vec![(P0, script_precompile(obs.clone()))]);
        let r = gc::run_grevm(&db, &cfg, &block, &txs, Some(pcs), DelegatedSafetyConfig::disabled(), workers);
        let r = match r {
            Ok(r) => r,
            Err(e) => {
                out.fail("run-error", format!("grevm {name}: {e}"), replay.clone());
                continue;
            }
        };
        let res = gc::block_result(&r);
        if let Some(d) = res.first_diff(&oracle_res) {
            out.fail(if workers == 0 { "sequential-path-differs-from-in-order-revm" } else { "parallel-differs-from-in-order-revm" }, format!("grevm {name} (workers={workers}) vs stock revm with the same adapters: {d}"), replay.clone());
        }
        let bad = obs.inconsistent.lock().unwrap().clone();
        if !bad.is_empty() {
            out.fail("reads-within-one-attempt-disagree", format!("grevm {name}: {bad:?}"), replay.clone());
        }
        // every committed invocation must be among the attempts observed; on the sequential path the
        // observation log must be exactly the oracle's
        let got: Vec<String> = obs.calls.lock().unwrap().iter().map(obs_key).collect();
        if workers == 0 {
            if got != oracle_obs {
                out.fail("sequential-path-observations-differ", format!("grevm sequential saw {got:?}, stock revm saw {oracle_obs:?}"), replay.clone());
            }
        } else {
            let mut pool: HashMap<&String, usize> = HashMap::new();
            for g in &got {
                *pool.entry(g).or_insert(0) += 1;
            }
            for o in &oracle_obs {
                match pool.get_mut(o) {
                    Some(n) if *n > 0 => *n -= 1,
                    _ => {
                        out.fail("committed-attempt-reads-not-observed", format!("grevm {name}: no attempt observed `{o}`; attempts: {got:?}"), replay.clone());
                        break;
                    }
                }
            }
            out.add("blk_parallel_attempts", got.len() as u64);
            out.add("blk_parallel_committed", oracle_obs.len() as u64);
        }
        out.bump("blk_runs");
    }
    let halted = oracle.0.iter().filter(|o| matches!(o, TxExecutionOutcome::Executed(r) if !r.is_success())).count();
    out.add("blk_tx_failed", halted as u64);
    out.add("blk_tx_skipped", oracle.0.iter().filter(|o| matches!(o, TxExecutionOutcome::Skipped(_))).count() as u64);
}

/// Driven stage (deterministic driver, targeted slow-writer schedules): blocks in which the scripted
/// precompile keeps state in the storage of the code-less nonce-0 account t2, one transaction
/// empties t2 (EIP-161 removal: the account and its storage go, a storage-reset marker is
/// published), others refill / rewrite it, and readers load several of its slots in one call. The
/// schedules freeze a writer between two of its publications until the other workers have done a
/// chosen number of multi-version reads. Each run vs stock revm in order with the same adapter.
/// `only` = (block index, schedule index) replays one run and prints its trace.
fn driven_stage(seed: u64, count: u64, out: &mut Out, only: Option<(u64, u64)>) {
    use verif_harness::driver::{Driver, Straggler};
    let mut top = Rng::new(seed ^ 0xD21F);
    for idx in 0..count {
        let mut rng = top.fork();
        if only.is_some_and(|o| o.0 != idx) {
            continue;
        }
        let mut w = gen_bworld(&mut rng);
        let mut nonces = [0u64; 4];
        let mut txs: Vec<TxEnv> = Vec::new();
        let mut descr: Vec<String> = w.descr.iter().filter(|d| d.starts_with('k')).cloned().collect();
        let mut push = |rng: &mut Rng, ops: Vec<[u8; 4]>, txs: &mut Vec<TxEnv>| {
            let s = rng.below(4) as usize;
            let mut data = vec![txs.len() as u8, 0];
            for o in ops {
                data.extend_from_slice(&o);
            }
            let tx = TxEnv {
                caller: s_addr(s),
                nonce: nonces[s],
                gas_limit: 500_000,
                gas_price: 1,
                chain_id: Some(1),
                kind: TxKind::Call(if rng.chance(3, 4) { P0 } else { k_addr(0) }),
                data: data.into(),
                ..Default::default()
            };
            nonces[s] += 1;
            txs.push(tx);
        };
        const H: u8 = 2; // table[2] = t2
        // writer(s), emptier, optional refill + rewrite, reader(s); ordinary counter bumps in between
        let slots = rng.range(2, 3) as u8;
        let ops: Vec<[u8; 4]> = (0..slots).map(|k| [3u8, H, k, rng.range(1, 200) as u8]).collect();
        push(&mut rng, ops, &mut txs);
        if rng.chance(1, 3) {
            push(&mut rng, vec![[5, H, 0, 1]], &mut txs);
        }
        let emptier = txs.len();
        push(&mut rng, vec![[2, H, 0, 0]], &mut txs);
        if rng.chance(1, 3) {
            let ops = vec![[2, H, 0, rng.range(1, 9) as u8], [3, H, rng.below(slots as u64) as u8, rng.range(1, 200) as u8]];
            push(&mut rng, ops, &mut txs);
        }
        for _ in 0..rng.range(1, 2) {
            let mut ks: Vec<u8> = (0..slots).collect();
            if rng.chance(1, 2) {
                ks.reverse();
            }
            let mut ops: Vec<[u8; 4]> = ks.iter().map(|k| [1u8, H, *k, 0]).collect();
            if rng.chance(1, 3) {
                ops.insert(0, [0, H, 0, 0]);
            }
            push(&mut rng, ops, &mut txs);
        }
        if rng.chance(1, 2) {
            let s = rng.below(4) as usize;
            txs.insert(rng.below(txs.len() as u64 + 1) as usize, TxEnv { caller: s_addr(s), nonce: 0, gas_limit: 200_000, gas_price: 1, chain_id: Some(1), kind: TxKind::Call(t_addr(0)), ..Default::default() });
            // re-number the nonces per sender in block order
            let mut n = [0u64; 4];
            for t in txs.iter_mut() {
                let si = (0..4).find(|i| s_addr(*i) == t.caller).unwrap();
                t.nonce = n[si];
                n[si] += 1;
            }
        }
        if rng.chance(1, 2) {
            // a sender funded only by the transaction before it: when its attempt runs first it fails for
            // lack of funds - an attempt the worker discards - and is retried later, possibly on a worker
            // that has just discarded another attempt; its script reads the holder through the facade
            let poor = t_addr(3); // table[7]: absent from the database, so the scripts can read its balance
            let fs = rng.below(4) as usize;
            let fn_ = txs.iter().filter(|t| t.caller == s_addr(fs)).count() as u64;
            txs.push(TxEnv { caller: s_addr(fs), nonce: fn_, gas_limit: 21_000, gas_price: 1, chain_id: Some(1), kind: TxKind::Call(poor), value: U256::from(10u64).pow(U256::from(15)), ..Default::default() });
            let mut data = vec![txs.len() as u8, 0, 0, H, 0, 0];
            for k in 0..slots {
                data.extend_from_slice(&[1, H, k, 0]);
            }
            txs.push(TxEnv { caller: poor, nonce: 0, gas_limit: 500_000, gas_price: 1, chain_id: Some(1), kind: TxKind::Call(P0), data: data.into(), ..Default::default() });
            // ... and readers of that sender's balance: a worker that discarded an attempt of it must not
            // keep the account (as absent) in its journal for the transactions it runs next
            for _ in 0..rng.range(1, 2) {
                let rs = rng.below(4) as usize;
                let rn = txs.iter().filter(|t| t.caller == s_addr(rs)).count() as u64;
                let data = vec![txs.len() as u8, 0, 0, 7, 0, 0, 0, H, 0, 0];
                txs.push(TxEnv { caller: s_addr(rs), nonce: rn, gas_limit: 500_000, gas_price: 1, chain_id: Some(1), kind: TxKind::Call(P0), data: data.into(), ..Default::default() });
            }
        }
        let emptier = txs.iter().position(|t| t.data.len() == 6 && t.data[2] == 2 && t.data[5] == 0).unwrap_or(emptier);
        for (i, t) in txs.iter().enumerate() {
            descr.push(format!("tx{i} from={:x} nonce={} to={:?} gas={} price={} value={:x} data={}", t.caller, t.nonce, t.kind, t.gas_limit, t.gas_price, t.value, gc::hex(&t.data)));
        }
        w.txs = txs;
        let cfg = CfgEnv::new_with_spec(w.spec);
        let block = BlockEnv { beneficiary: MINER, number: U256::from(10), ..Default::default() };
        let db = Arc::new(w.db.clone());
        let txs = Arc::new(w.txs.clone());
        let obs_o = Arc::new(Obs::default());
        let pc_o = script_precompile(obs_o.clone());
        let oracle = {
            let evm = gc::stock_evm(&w.db, &cfg, &block, revm::inspector::NoOpInspector {});
            let mut evm = evm.with_precompiles(PrecompilesMap::from_static(EthPrecompiles::new(w.spec).precompiles));
            let alloy = pc_o.to_alloy();
            evm.precompiles.apply_precompile(&P0, move |_| Some(alloy));
            gc::run_stock_on(&mut evm, &w.txs, false, |_, _| {})
        };
        let oracle = match oracle {
            Ok(r) => r,
            Err(e) => {
                out.fail("run-error", format!("stock revm: {e}"), format!("facade driven {seed} {idx}"));
                continue;
            }
        };
        let oracle_res = gc::block_result(&oracle);
        out.bump("driven_blocks");
        let n_sched = 8;
        let mut stop = false;
        for k in 0..n_sched {
            let srng0 = rng.fork();
            if only.is_some_and(|o| o.1 != k) {
                continue;
            }
            // the order in which an attempt publishes its locations follows a per-process hash seed, so
            // one (block, schedule) pair stands for a small family of runs: a replay repeats it
            for _rep in 0..(if only.is_some() { 60 } else { 1 }) {
            let mut srng = Rng(srng0.0);
            let workers = srng.range(2, 3) as usize;
            let tx = if srng.chance(3, 4) { emptier as i64 } else { srng.below(w.txs.len() as u64) as i64 };
            let (ith, reads) = (srng.below(6), srng.range(1, 8));
            let replay = format!("facade driven {seed} {} <outdir> {idx} {k}   # spec={:?} workers={workers} freeze the worker of tx{tx} after its publication #{ith} until the others did {reads} reads\n{}", idx + 1, w.spec, descr.join("\n"));
            let obs = Arc::new(Obs::default());
            let pcs: gc::Precompiles = Arc::new(vec![(P0, script_precompile(obs.clone()))]);
            grevm::verif::reset_interner();
            let d = Driver::new(workers + 2, Box::new(Straggler::slow_writer_at(srng.fork(), tx, ith, reads)), 300000);
            d.install();
            let r = std::panic::catch_unwind(std::panic::AssertUnwindSafe(|| gc::run_grevm(&db, &cfg, &block, &txs, Some(pcs), DelegatedSafetyConfig::disabled(), workers)));
            Driver::uninstall();
            let rep = d.report();
            out.bump("driven_runs");
            let mut bad = false;
            match r {
                Ok(Ok(r)) => {
                    if let Some(df) = gc::block_result(&r).first_diff(&oracle_res) {
                        bad = true;
                        out.fail("parallel-differs-from-in-order-revm", format!("driven run (workers={workers}) vs stock revm with the same adapter: {df}; attempts: {:?}", obs.calls.lock().unwrap().iter().map(obs_key).collect::<Vec<_>>()), replay.clone());
                    }
                }
                Ok(Err(e)) => {
                    bad = true;
                    out.fail("run-error", format!("grevm driven: {e}"), replay.clone());
                }
                Err(_) => {
                    bad = true;
                    out.fail("run-error", "grevm driven: panic".to_owned(), replay.clone());
                }
            }
            if let Some(f) = &rep.failure {
                bad = true;
                out.fail("driven-run-did-not-terminate", f.clone(), replay.clone());
            }
            if rep.trace.iter().any(|e| e.kind == "cur_rewind") {
                out.bump("driven_runs_with_rewind");
            }
            if obs.calls.lock().unwrap().len() > oracle.0.len() {
                out.bump("driven_runs_with_reexecution");
            }
            if only.is_some() && bad {
                for (i, dl) in grevm::verif::interned().iter().enumerate() {
                    println!("# dict {i} {dl}");
                }
                print!("{}", verif_harness::driver::trace_lines(&rep.trace));
            }
            if bad {
                stop = true;
                break;
            }
            }
            if stop {
                break;
            }
        }
    }
}

fn main() {
    let a: Vec<String> = std::env::args().collect();
    if a[1] == "driven" {
        // facade driven <seed> <count> <outdir> [<block> <schedule>]
        let (seed, count, outdir) = (a[2].parse::<u64>().unwrap(), a[3].parse::<u64>().unwrap(), &a[4]);
        let only = a.get(5).map(|b| (b.parse::<u64>().unwrap(), a[6].parse::<u64>().unwrap()));
        let mut out = Out { inp: String::new(), imp: String::new(), direct: Vec::new(), stats: BTreeMap::new() };
        driven_stage(seed, count, &mut out, only);
        fs::create_dir_all(outdir).unwrap();
        fs::write(format!("{outdir}/driven.direct"), out.direct.join("\n") + if out.direct.is_empty() { "" } else { "\n" }).unwrap();
        let stats: Vec<String> = out.stats.iter().map(|(k, v)| format!("\"{k}\":{v}")).collect();
        fs::write(format!("{outdir}/driven.stats"), format!("{{{}}}\n", stats.join(","))).unwrap();
        if only.is_some() {
            for d in &out.direct {
                println!("{d}");
            }
        }
        return;
    }
    let seed: u64 = a[1].parse().unwrap();
    let n_adapter: u64 = a[2].parse().unwrap();
    let n_block: u64 = a[3].parse().unwrap();
    let outdir = &a[4];
    let only: Option<u64> = a.get(5).map(|s| s.parse().unwrap());
    let mut out = Out { inp: String::new(), imp: String::new(), direct: Vec::new(), stats: BTreeMap::new() };
    if only.is_none() {
        let mut rng = Rng::new(seed ^ 0xFACADE);
        for i in 0..n_adapter {
            let mut r = rng.fork();
            adapter_case(i, &mut r, &mut out);
        }
    }
    let mut rng = Rng::new(seed ^ 0xB10C);
    for i in 0..n_block {
        let mut r = rng.fork();
        if only.is_some_and(|o| o != i) {
            continue;
        }
        block_case(i, &mut r, &mut out, seed);
    }
    fs::create_dir_all(outdir).unwrap();
    fs::write(format!("{outdir}/facade.in"), &out.inp).unwrap();
    fs::write(format!("{outdir}/facade.impl"), &out.imp).unwrap();
    fs::write(format!("{outdir}/facade.direct"), out.direct.join("\n") + if out.direct.is_empty() { "" } else { "\n" }).unwrap();
    let stats: Vec<String> = out.stats.iter().map(|(k, v)| format!("\"{k}\":{v}")).collect();
    fs::write(format!("{outdir}/facade.stats"), format!("{{{}}}\n", stats.join(","))).unwrap();
    if only.is_some() {
        for d in &out.direct {
            println!("{d}");
        }
    }
    let _ = BlockResult { outcomes: vec![], bundle: vec![] };
}
