//! C17 probe: the real finality coordinator (Scheduler::run_finality_loop, free-running, real
//! parker) is notified while a silent holder - a stale or duplicate claim, which never notifies -
//! has the candidate's lock.  The wait predicate must report the published state: the coordinator
//! finalises transaction 0 as soon as the lock is released, never through the stall timer.
//! usage: finprobe <seed> <count>      prints one line per case: "<hold_ms> <waited_ms>"
use grevm::{ParallelState, Scheduler};
use revm_context::{BlockEnv, CfgEnv, TxEnv};
use revm_database::EmptyDB;
use revm_primitives::hardfork::SpecId;
use std::{sync::Arc, time::Duration};
use verif_harness::rng::Rng;

fn main() {
    let a: Vec<String> = std::env::args().collect();
    let (seed, count) = (a[1].parse::<u64>().unwrap(), a[2].parse::<u64>().unwrap());
    let mut rng = Rng::new(seed);
    let hs: Vec<std::thread::JoinHandle<(u64, u128)>> = (0..count)
        .map(|_| {
            let hold = rng.range(20, 200);
            let settle = rng.range(30, 300);
            std::thread::spawn(move || {
                let s: Scheduler<EmptyDB> = Scheduler::new(
                    CfgEnv::new_with_spec(SpecId::SHANGHAI),
                    BlockEnv::default(),
                    Arc::new(vec![TxEnv::default(); 1]),
                    ParallelState::new(EmptyDB::default(), true, false),
                    None,
                );
                let w = s.verif_finality_probe_busy_lock(Duration::from_millis(settle), Duration::from_millis(hold));
                (hold, w.as_millis())
            })
        })
        .collect();
    for h in hs {
        let (hold, w) = h.join().unwrap();
        println!("{hold} {w}");
    }
}
