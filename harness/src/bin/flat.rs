//! Operation-sequence differential for the flat multi-version account encoding (C08 / C09).
//! usage: flat seq|prop <seed> <count> <outdir> [only_index]
//! `prop`: in-order blocks published through the real IncarnationDb, every read compared with stock
//! revm `State` after committing the same finalised states (the model-independent property oracle);
//! writes <outdir>/prop.fail.
//! Writes <outdir>/flat.in (commands, the model's input) and <outdir>/flat.impl (what the REAL
//! IncarnationDb / MVMemory / Beneficiary returned, one line per command that has an output).
//! Every random choice derives from <seed>; case i is reproducible from (seed, i).
//!
//! Line protocol (tokens separated by blanks; numbers lower-case hex without prefix):
//!   case <i> <kind> ben <addr>
//!   base acct <addr> <info|none|err> | base stor <addr> <slot> <val|err> | base code <hash> <code|err>
//!   raw <loc> <txid> <inc> <est> <val> | rm <loc> <txid>
//!   begin <h> <txid> <inc> | basic <h> <addr> [bok <info|none> <tag> | bblk <k>] | storage <h> <addr> <slot>
//!   codehash <h> <hash> | finish <h> <n> {<addr> <t><s><c> <info> <m> {<slot> <orig> <pres>}} | discard <h>
//!   dump | end
//!   info = i,<bal>,<nonce>,<hash>,<code>   code = x<hex bytes> | -     loc = B<a> | S<a>.<s> | R<a> | C<a>
//!   val  = vb:<info|none> | vc:<code> | vs:<val> | vr
use grevm::verif::flat::{Accesses, FlatDb, FlatEnv, Loc, Val, Ver};
use revm::{DatabaseRef, database_interface::DBErrorMarker};
use revm_primitives::{Address, B256, KECCAK_EMPTY, U256};
use revm_state::{Account, AccountInfo, Bytecode, EvmState, EvmStorageSlot};
use std::{collections::BTreeMap, collections::HashMap, fmt::Write as _, fs};
use verif_harness::rng::Rng;

#[derive(Debug)]
struct DbErr;
impl std::fmt::Display for DbErr {
    fn fmt(&self, f: &mut std::fmt::Formatter<'_>) -> std::fmt::Result {
        f.write_str("db error")
    }
}
impl std::error::Error for DbErr {}
impl DBErrorMarker for DbErr {}

#[derive(Default)]
struct Base {
    accts: BTreeMap<Address, Option<Option<AccountInfo>>>, // None = error
    stor: BTreeMap<(Address, U256), Option<U256>>,
    code: BTreeMap<B256, Option<Bytecode>>,
}

impl DatabaseRef for Base {
    type Error = DbErr;
    fn basic_ref(&self, address: Address) -> Result<Option<AccountInfo>, DbErr> {
        match self.accts.get(&address) {
            None => Ok(None),
            Some(None) => Err(DbErr),
            Some(Some(i)) => Ok(i.clone()),
        }
    }
    fn code_by_hash_ref(&self, code_hash: B256) -> Result<Bytecode, DbErr> {
        match self.code.get(&code_hash) {
            Some(Some(c)) => Ok(c.clone()),
            _ => Err(DbErr), // unknown hash: the store has no such code
        }
    }
    fn storage_ref(&self, address: Address, index: U256) -> Result<U256, DbErr> {
        match self.stor.get(&(address, index)) {
            None => Ok(U256::ZERO),
            Some(None) => Err(DbErr),
            Some(Some(v)) => Ok(*v),
        }
    }
    fn block_hash_ref(&self, _number: u64) -> Result<B256, DbErr> {
        Ok(B256::ZERO)
    }
}

// ------------------------------------------------------------------------------------ printing

fn ha(a: &Address) -> String {
    format!("{:x}", U256::from_be_slice(a.as_slice()))
}
fn hh(h: &B256) -> String {
    format!("{:x}", U256::from_be_bytes(h.0))
}
fn hcode(c: &Option<Bytecode>) -> String {
    match c {
        None => "-".to_owned(),
        Some(c) => {
            let mut s = String::from("x");
            for b in c.original_bytes().iter() {
                write!(s, "{b:02x}").unwrap();
            }
            s
        }
    }
}
fn hinfo(i: &Option<AccountInfo>) -> String {
    match i {
        None => "none".to_owned(),
        Some(i) => format!("i,{:x},{:x},{},{}", i.balance, i.nonce, hh(&i.code_hash), hcode(&i.code)),
    }
}
fn hloc(l: &Loc) -> String {
    match l {
        Loc::Basic(a) => format!("B{}", ha(a)),
        Loc::Storage(a, s) => format!("S{}.{:x}", ha(a), s),
        Loc::Reset(a) => format!("R{}", ha(a)),
        Loc::Code(a) => format!("C{}", ha(a)),
    }
}
fn hval(v: &Val) -> String {
    match v {
        Val::Basic(i) => format!("vb:{}", hinfo(i)),
        Val::Code(c) => format!("vc:{}", hcode(&Some(c.clone()))),
        Val::Storage(v) => format!("vs:{v:x}"),
        Val::Reset => "vr".to_owned(),
    }
}

struct Tags(HashMap<String, usize>);
impl Tags {
    fn id(&mut self, s: &str) -> usize {
        let n = self.0.len();
        *self.0.entry(s.to_owned()).or_insert(n)
    }
}

fn haccesses(acc: &Accesses, tags: &mut Tags) -> String {
    let mut reads: Vec<String> = acc
        .reads
        .iter()
        .map(|(l, v)| {
            let v = match v {
                Ver::Mv(k, i) => format!("m{k:x}.{i:x}"),
                Ver::Ben(s) => format!("b{:x}", tags.id(s)),
                Ver::Storage => "s".to_owned(),
            };
            format!("{}={}", hloc(l), v)
        })
        .collect();
    reads.sort();
    let mut writes: Vec<String> = acc.writes.iter().map(hloc).collect();
    writes.sort();
    let blocking: Vec<String> = acc.blocking.iter().map(|k| format!("{k:x}")).collect();
    format!(
        "acc R[{}] W[{}] B[{}] bb={} blk={}",
        reads.join(","),
        writes.join(","),
        blocking.join(","),
        acc.blocked_by_beneficiary as u8,
        acc.is_blocked as u8
    )
}

fn hdump(env: &FlatEnv) -> String {
    let mut rows: Vec<String> = env
        .dump()
        .iter()
        .map(|(l, k, inc, v, est)| format!("{}@{:x}/{:x}/{}={}", hloc(l), k, inc, *est as u8, hval(v)))
        .collect();
    rows.sort();
    format!("mv {}", rows.join(";"))
}

// ---------------------------------------------------------------------------------- generation

struct Pools {
    addrs: Vec<Address>,
    slots: Vec<U256>,
    codes: Vec<Bytecode>,
}

fn pools(rng: &mut Rng) -> Pools {
    let na = rng.range(2, 4) as usize;
    let addrs = (0..na).map(|i| Address::with_last_byte(0xa0 + i as u8)).collect::<Vec<_>>();
    let mut slots = vec![U256::ZERO, U256::from(1u8)];
    if rng.chance(1, 3) {
        slots.push(U256::MAX);
    }
    let mut codes = vec![
        Bytecode::new_raw(vec![0x60u8, 0x01, 0x60, 0x00, 0x55, 0x00].into()),
        Bytecode::new_raw(vec![0x60u8, 0x02, 0x60, 0x00, 0x55, 0x00].into()),
        Bytecode::new_eip7702(Address::with_last_byte(0xe1)),
        Bytecode::new_eip7702(Address::with_last_byte(0xe2)),
    ];
    if rng.chance(1, 4) {
        codes.push(Bytecode::new_raw(vec![0xfeu8].into()));
    }
    Pools { addrs, slots, codes }
}

fn small_u256(rng: &mut Rng) -> U256 {
    match rng.below(8) {
        0 => U256::ZERO,
        1 => U256::MAX,
        2 => U256::from(u128::MAX),
        _ => U256::from(rng.range(1, 9)),
    }
}

fn gen_info(rng: &mut Rng, p: &Pools, malformed: bool) -> AccountInfo {
    let mut info = AccountInfo {
        balance: small_u256(rng),
        nonce: match rng.below(6) {
            0 => 0,
            1 => u64::MAX,
            _ => rng.range(0, 5),
        },
        code_hash: KECCAK_EMPTY,
        account_id: None,
        code: if rng.chance(1, 2) { None } else { Some(Bytecode::default()) },
    };
    match rng.below(if malformed { 8 } else { 5 }) {
        0 | 1 => {}
        2 | 3 => {
            let c = rng.pick(&p.codes).clone();
            info.code_hash = c.hash_slow();
            info.code = Some(c);
        }
        4 => {
            // code known only by hash
            let c = rng.pick(&p.codes).clone();
            info.code_hash = c.hash_slow();
            info.code = None;
        }
        5 => {
            // hash / code mismatch
            let c = rng.pick(&p.codes).clone();
            info.code_hash = rng.pick(&p.codes).hash_slow();
            info.code = Some(c);
        }
        6 => {
            info.code_hash = B256::ZERO;
            info.code = if rng.chance(1, 2) { None } else { Some(Bytecode::default()) };
            if rng.chance(1, 2) {
                info.balance = U256::ZERO;
                info.nonce = 0;
            }
        }
        _ => {
            info.code_hash = B256::with_last_byte(0x77); // unknown to every store
            info.code = None;
        }
    }
    info
}

fn gen_base(rng: &mut Rng, p: &Pools, ben: Address, malformed: bool, inp: &mut String) -> Base {
    let mut base = Base::default();
    let mut addrs = p.addrs.clone();
    if !addrs.contains(&ben) {
        addrs.push(ben);
    }
    for a in &addrs {
        let entry = match rng.below(if malformed { 7 } else { 6 }) {
            0 | 1 => continue, // absent
            2 => Some(Some(AccountInfo {
                balance: U256::ZERO,
                nonce: 0,
                code_hash: KECCAK_EMPTY,
                account_id: None,
                code: None,
            })),
            3 | 4 | 5 => Some(Some(gen_info(rng, p, malformed))),
            _ => None,
        };
        let s = match &entry {
            None => "err".to_owned(),
            Some(i) => hinfo(i),
        };
        writeln!(inp, "base acct {} {}", ha(a), s).unwrap();
        base.accts.insert(*a, entry);
    }
    for a in &addrs {
        for s in &p.slots {
            if rng.chance(1, 3) {
                let v = if malformed && rng.chance(1, 6) { None } else { Some(small_u256(rng)) };
                match v {
                    None => writeln!(inp, "base stor {} {:x} err", ha(a), s).unwrap(),
                    Some(v) => writeln!(inp, "base stor {} {:x} {:x}", ha(a), s, v).unwrap(),
                }
                base.stor.insert((*a, *s), v);
            }
        }
    }
    for c in &p.codes {
        if rng.chance(5, 6) {
            let h = c.hash_slow();
            let e = if malformed && rng.chance(1, 5) { None } else { Some(c.clone()) };
            match &e {
                None => writeln!(inp, "base code {} err", hh(&h)).unwrap(),
                Some(c) => writeln!(inp, "base code {} {}", hh(&h), hcode(&Some(c.clone()))).unwrap(),
            }
            base.code.insert(h, e);
        }
    }
    base
}

fn gen_loc(rng: &mut Rng, p: &Pools) -> Loc {
    let a = *rng.pick(&p.addrs);
    match rng.below(4) {
        0 => Loc::Basic(a),
        1 => Loc::Storage(a, *rng.pick(&p.slots)),
        2 => Loc::Reset(a),
        _ => Loc::Code(a),
    }
}

fn gen_val_for(rng: &mut Rng, p: &Pools, l: &Loc, malformed: bool) -> Val {
    let kind = if malformed && rng.chance(1, 3) {
        rng.below(4)
    } else {
        match l {
            Loc::Basic(_) => 0,
            Loc::Storage(..) => 1,
            Loc::Reset(_) => 2,
            Loc::Code(_) => 3,
        }
    };
    match kind {
        0 => Val::Basic(if rng.chance(1, 4) {
            None
        } else {
            let mut i = gen_info(rng, p, malformed);
            if !malformed || rng.chance(2, 3) {
                i.code = None;
            }
            Some(i)
        }),
        1 => Val::Storage(small_u256(rng)),
        2 => Val::Reset,
        _ => Val::Code(rng.pick(&p.codes).clone()),
    }
}

/// What a handle remembers about its own reads, to build realistic finalised states.
#[derive(Default)]
struct View {
    active: Option<(usize, usize)>,
    infos: HashMap<Address, Option<AccountInfo>>,
    slots: HashMap<(Address, U256), U256>,
}

fn gen_account(rng: &mut Rng, p: &Pools, view: &View, a: Address, malformed: bool) -> Account {
    let read = view.infos.get(&a).cloned();
    let pre: AccountInfo = match &read {
        Some(Some(i)) => i.clone(),
        _ => AccountInfo { code: if rng.chance(1, 2) { None } else { Some(Bytecode::default()) }, ..Default::default() },
    };
    let mut acct = Account::from(pre.clone());
    let mut touched = true;
    match rng.below(if malformed { 13 } else { 12 }) {
        0 => touched = false,
        1 => {}
        2 => acct.info.balance = small_u256(rng),
        3 => acct.info.nonce = acct.info.nonce.wrapping_add(1),
        4 => {
            acct.info.balance = small_u256(rng);
            acct.info.nonce = acct.info.nonce.wrapping_add(1);
        }
        5 => {
            acct.mark_selfdestruct();
            if rng.chance(1, 3) {
                acct.mark_created();
            }
        }
        6 => {
            // CREATE with code
            acct.mark_created();
            acct.info.nonce = 1;
            let c = rng.pick(&p.codes).clone();
            acct.info.set_code(c);
        }
        7 => {
            // created without code (pre-EIP-161 materialisation / CREATE returning empty code)
            acct.mark_created();
            acct.info.code_hash = KECCAK_EMPTY;
            acct.info.code = Some(Bytecode::default());
            if rng.chance(1, 2) {
                acct.info.balance = U256::ZERO;
                acct.info.nonce = 0;
            }
        }
        8 | 9 => {
            // EIP-7702 set / re-point
            let c = rng.pick(&p.codes).clone();
            acct.info.set_code(c);
            if rng.chance(4, 5) {
                acct.info.nonce = acct.info.nonce.wrapping_add(1);
            }
        }
        10 => {
            // EIP-7702 clear
            acct.info.code_hash = KECCAK_EMPTY;
            acct.info.code = if rng.chance(1, 2) { None } else { Some(Bytecode::default()) };
            if rng.chance(4, 5) {
                acct.info.nonce = acct.info.nonce.wrapping_add(1);
            }
        }
        11 => {
            // drained to empty
            acct.info.balance = U256::ZERO;
            acct.info.nonce = 0;
            if rng.chance(1, 2) {
                acct.info.code_hash = KECCAK_EMPTY;
                acct.info.code = None;
            }
        }
        _ => {
            acct.info = gen_info(rng, p, true);
            if rng.chance(1, 3) {
                acct.mark_created();
            }
            if rng.chance(1, 4) {
                acct.mark_selfdestruct();
            }
        }
    }
    if touched {
        acct.mark_touch();
    }
    let ns = rng.below(4);
    for _ in 0..ns {
        let s = *rng.pick(&p.slots);
        let orig = match view.slots.get(&(a, s)) {
            Some(v) if rng.chance(5, 6) => *v,
            _ => small_u256(rng),
        };
        let present = if rng.chance(1, 5) { orig } else { small_u256(rng) };
        acct.storage.insert(s, EvmStorageSlot::new_changed(orig, present, Default::default()));
    }
    acct
}

fn print_state(state: &EvmState) -> String {
    let mut accts: Vec<(&Address, &Account)> = state.iter().collect();
    accts.sort_by_key(|(a, _)| **a);
    let mut s = format!("{:x}", accts.len());
    for (a, acct) in accts {
        write!(
            s,
            " {} {}{}{} {}",
            ha(a),
            acct.is_touched() as u8,
            acct.is_selfdestructed() as u8,
            acct.is_created() as u8,
            hinfo(&Some(acct.info.clone()))
        )
        .unwrap();
        let mut slots: Vec<(&U256, &EvmStorageSlot)> = acct.storage.iter().collect();
        slots.sort_by_key(|(k, _)| **k);
        write!(s, " {:x}", slots.len()).unwrap();
        for (k, v) in slots {
            write!(s, " {:x} {:x} {:x}", k, v.original_value, v.present_value).unwrap();
        }
    }
    s
}

#[derive(Default)]
struct Stats {
    ops: BTreeMap<&'static str, u64>,
    classes: BTreeMap<&'static str, u64>,
    reads_mv: u64,
    reads_base: u64,
    reads_err: u64,
    reads_ben: u64,
    est_hits: u64,
}

fn one_case(idx: u64, rng: &mut Rng, inp: &mut String, out: &mut String, st: &mut Stats) {
    let kind = match rng.below(5) {
        0 => "malformed",
        1 | 2 => "inorder",
        _ => "mixed",
    };
    let malformed = kind == "malformed";
    let inorder = kind == "inorder";
    let p = pools(rng);
    let ben = if rng.chance(1, 3) { p.addrs[0] } else { Address::with_last_byte(0xbb) };
    writeln!(inp, "case {idx:x} {kind} ben {}", ha(&ben)).unwrap();
    writeln!(out, "case {idx:x}").unwrap();
    let base = gen_base(rng, &p, ben, malformed, inp);
    let ntx = rng.range(3, 9) as usize;
    let anchor = base.basic_ref(ben).ok().flatten();
    let env = FlatEnv::new(ben, anchor, ntx + 2);
    let mut tags = Tags(HashMap::new());
    // beneficiary history (opaque to the model: its resolve results are passed in-line)
    for k in 0..ntx {
        match rng.below(4) {
            0 => {}
            1 => {
                env.ben_record_state(k, 1, EvmState::default());
            }
            2 => {
                let mut stt = EvmState::default();
                let mut acct = Account::from(gen_info(rng, &p, false));
                acct.mark_touch();
                stt.insert(ben, acct);
                env.ben_record_state(k, 1, stt);
            }
            _ => {
                env.ben_record_state(k, 1, EvmState::default());
                if rng.chance(1, 3) {
                    env.ben_record_estimate(k, 2);
                }
            }
        }
    }
    let mut dbs: Vec<FlatDb<'_, Base>> = vec![env.db(&base), env.db(&base)];
    let mut views: Vec<View> = vec![View::default(), View::default()];
    let mut executions: HashMap<usize, usize> = HashMap::new();
    let mut next_writer = 0usize;
    let nops = rng.range(8, 45);
    let mut all_addrs = p.addrs.clone();
    if !all_addrs.contains(&ben) {
        all_addrs.push(ben);
    }
    for _ in 0..nops {
        let h = if inorder && rng.chance(3, 4) { 0 } else { rng.below(2) as usize };
        if views[h].active.is_none() {
            // begin
            let txid = if h == 0 && (inorder || rng.chance(2, 3)) {
                let t = next_writer;
                if t + 1 < ntx {
                    next_writer += 1;
                }
                t
            } else {
                rng.below(ntx as u64 + 1) as usize
            };
            let e = executions.entry(txid).or_insert(0);
            *e += 1;
            let inc = if malformed && rng.chance(1, 4) { rng.below(3) as usize } else { *e };
            writeln!(inp, "begin {h} {txid:x} {inc:x}").unwrap();
            dbs[h].begin(txid, inc);
            views[h] = View { active: Some((txid, inc)), ..Default::default() };
            *st.ops.entry("begin").or_default() += 1;
            continue;
        }
        let (txid, _inc) = views[h].active.unwrap();
        match rng.below(100) {
            0..=29 => {
                let a = *rng.pick(&all_addrs);
                write!(inp, "basic {h} {}", ha(&a)).unwrap();
                if env.ben_matches(a) {
                    st.reads_ben += 1;
                    match env.ben_resolve(txid) {
                        Ok((i, tag)) => write!(inp, " bok {} {:x}", hinfo(&i), tags.id(&tag)).unwrap(),
                        Err(k) => write!(inp, " bblk {k:x}").unwrap(),
                    }
                }
                inp.push('\n');
                match dbs[h].basic(a) {
                    Ok(i) => {
                        writeln!(out, "= {}", hinfo(&i)).unwrap();
                        views[h].infos.insert(a, i);
                    }
                    Err(_) => {
                        st.reads_err += 1;
                        writeln!(out, "= err").unwrap();
                    }
                }
                *st.ops.entry("basic").or_default() += 1;
            }
            30..=59 => {
                let a = *rng.pick(&all_addrs);
                let s = *rng.pick(&p.slots);
                writeln!(inp, "storage {h} {} {:x}", ha(&a), s).unwrap();
                match dbs[h].storage(a, s) {
                    Ok(v) => {
                        writeln!(out, "= {v:x}").unwrap();
                        views[h].slots.insert((a, s), v);
                    }
                    Err(_) => {
                        st.reads_err += 1;
                        writeln!(out, "= err").unwrap();
                    }
                }
                *st.ops.entry("storage").or_default() += 1;
            }
            60..=81 => {
                // finish with 1..3 accounts
                let mut state = EvmState::default();
                let n = rng.range(if malformed { 0 } else { 1 }, 3);
                for _ in 0..n {
                    let a = *rng.pick(&all_addrs);
                    // realistic: the journal loads an account before changing it
                    if !views[h].infos.contains_key(&a) && !(malformed && rng.chance(1, 2)) {
                        write!(inp, "basic {h} {}", ha(&a)).unwrap();
                        if env.ben_matches(a) {
                            match env.ben_resolve(txid) {
                                Ok((i, tag)) => write!(inp, " bok {} {:x}", hinfo(&i), tags.id(&tag)).unwrap(),
                                Err(k) => write!(inp, " bblk {k:x}").unwrap(),
                            }
                        }
                        inp.push('\n');
                        match dbs[h].basic(a) {
                            Ok(i) => {
                                writeln!(out, "= {}", hinfo(&i)).unwrap();
                                views[h].infos.insert(a, i);
                            }
                            Err(_) => writeln!(out, "= err").unwrap(),
                        }
                    }
                    let acct = gen_account(rng, &p, &views[h], a, malformed);
                    // statistics only
                    let class = if !acct.is_touched() {
                        "unchanged"
                    } else if acct.is_selfdestructed() {
                        "deleted"
                    } else if acct.is_created() {
                        "created"
                    } else if acct.is_empty() {
                        "deleted-empty"
                    } else {
                        "updated"
                    };
                    *st.classes.entry(class).or_default() += 1;
                    state.insert(a, acct);
                }
                writeln!(inp, "finish {h} {}", print_state(&state)).unwrap();
                let acc = dbs[h].finish(&state);
                st.reads_mv += acc.reads.iter().filter(|(_, v)| matches!(v, Ver::Mv(..))).count() as u64;
                st.reads_base += acc.reads.iter().filter(|(_, v)| matches!(v, Ver::Storage)).count() as u64;
                st.est_hits += acc.blocking.len() as u64;
                writeln!(out, "{}", haccesses(&acc, &mut tags)).unwrap();
                writeln!(inp, "dump").unwrap();
                writeln!(out, "{}", hdump(&env)).unwrap();
                views[h] = View::default();
                *st.ops.entry("finish").or_default() += 1;
            }
            82..=84 => {
                writeln!(inp, "discard {h}").unwrap();
                let acc = dbs[h].discard();
                writeln!(out, "{}", haccesses(&acc, &mut tags)).unwrap();
                views[h] = View::default();
                *st.ops.entry("discard").or_default() += 1;
            }
            85..=86 => {
                let hash = rng.pick(&p.codes).hash_slow();
                writeln!(inp, "codehash {h} {}", hh(&hash)).unwrap();
                match dbs[h].code_by_hash(hash) {
                    Ok(c) => writeln!(out, "= {}", hcode(&Some(c))).unwrap(),
                    Err(_) => writeln!(out, "= err").unwrap(),
                }
                *st.ops.entry("codehash").or_default() += 1;
            }
            87..=96 => {
                // raw entry: estimate marks, stale incarnations, (malformed:) wrong kinds
                let l = gen_loc(rng, &p);
                let k = rng.below(ntx as u64) as usize;
                let inc = rng.range(0, 3) as usize;
                let est = rng.chance(1, 2);
                let v = gen_val_for(rng, &p, &l, malformed);
                writeln!(inp, "raw {} {:x} {:x} {} {}", hloc(&l), k, inc, est as u8, hval(&v)).unwrap();
                env.insert_raw(&l, k, inc, v, est);
                *st.ops.entry("raw").or_default() += 1;
            }
            97 => {
                let l = gen_loc(rng, &p);
                let k = rng.below(ntx as u64) as usize;
                writeln!(inp, "rm {} {:x}", hloc(&l), k).unwrap();
                env.remove_raw(&l, k);
                *st.ops.entry("rm").or_default() += 1;
            }
            _ => {
                writeln!(inp, "dump").unwrap();
                writeln!(out, "{}", hdump(&env)).unwrap();
                *st.ops.entry("dump").or_default() += 1;
            }
        }
    }
    // final sweep: every (address, slot) and account read at every txid by a fresh incarnation
    if inorder || rng.chance(1, 2) {
        let h = 1;
        if views[h].active.is_some() {
            writeln!(inp, "discard {h}").unwrap();
            let acc = dbs[h].discard();
            writeln!(out, "{}", haccesses(&acc, &mut tags)).unwrap();
        }
        for t in 0..=ntx {
            writeln!(inp, "begin {h} {t:x} 9").unwrap();
            dbs[h].begin(t, 9);
            for a in &p.addrs {
                write!(inp, "basic {h} {}", ha(a)).unwrap();
                if env.ben_matches(*a) {
                    match env.ben_resolve(t) {
                        Ok((i, tag)) => write!(inp, " bok {} {:x}", hinfo(&i), tags.id(&tag)).unwrap(),
                        Err(k) => write!(inp, " bblk {k:x}").unwrap(),
                    }
                }
                inp.push('\n');
                match dbs[h].basic(*a) {
                    Ok(i) => writeln!(out, "= {}", hinfo(&i)).unwrap(),
                    Err(_) => writeln!(out, "= err").unwrap(),
                }
                for s in &p.slots {
                    writeln!(inp, "storage {h} {} {:x}", ha(a), s).unwrap();
                    match dbs[h].storage(*a, *s) {
                        Ok(v) => writeln!(out, "= {v:x}").unwrap(),
                        Err(_) => writeln!(out, "= err").unwrap(),
                    }
                }
            }
            writeln!(inp, "finish {h} 0").unwrap();
            let acc = dbs[h].finish(&EvmState::default());
            writeln!(out, "{}", haccesses(&acc, &mut tags)).unwrap();
        }
        *st.ops.entry("sweep").or_default() += 1;
    }
    writeln!(inp, "dump").unwrap();
    writeln!(out, "{}", hdump(&env)).unwrap();
    writeln!(inp, "end").unwrap();
}

// ------------------------------------------------------------------------------ property oracle

/// A finalised account the way revm's journal would hand it over, derived from what the writer read
/// through the real IncarnationDb (so that the block is in-order consistent whenever the property
/// holds), obeying revm's invariants: code attached whenever the hash is non-empty, a cleared
/// delegation bumps the nonce, created accounts start from zeroed storage.
fn prop_account(
    rng: &mut Rng,
    p: &Pools,
    read: &Option<AccountInfo>,
    slots_read: &HashMap<U256, U256>,
    st: &mut BTreeMap<&'static str, u64>,
) -> Account {
    let pre = read.clone().unwrap_or_else(|| AccountInfo { code: Some(Bytecode::default()), ..Default::default() });
    let mut acct = Account::from(pre.clone());
    let has_code = pre.code_hash != KECCAK_EMPTY;
    let mut created = false;
    let mut kind = rng.below(12);
    if kind >= 8 && kind <= 10 && has_code && !pre.code.as_ref().is_some_and(|c| c.is_eip7702()) {
        kind = 2; // EIP-7702 only re-points accounts without code or with a delegation
    }
    match kind {
        0 => {
            *st.entry("load_only").or_default() += 1;
            return acct;
        }
        1 => *st.entry("touch").or_default() += 1,
        2 => {
            acct.info.balance = U256::from(rng.range(0, 9));
            *st.entry("balance").or_default() += 1;
        }
        3 => {
            acct.info.nonce += 1;
            acct.info.balance = U256::from(rng.range(1, 9));
            *st.entry("nonce_balance").or_default() += 1;
        }
        4 | 5 => {
            acct.mark_selfdestruct();
            acct.info.balance = U256::ZERO;
            if read.is_none() && rng.chance(1, 2) {
                acct.mark_created();
                *st.entry("create_destroy_one_tx").or_default() += 1;
            } else {
                *st.entry("selfdestruct").or_default() += 1;
            }
        }
        6 | 7 => {
            // CREATE / CREATE2 onto an address without code (absent, destroyed before, or pre-funded)
            if has_code {
                acct.info.balance = U256::from(rng.range(0, 9));
                *st.entry("balance").or_default() += 1;
            } else {
                created = true;
                acct.mark_created();
                acct.info.nonce = 1;
                if rng.chance(4, 5) {
                    acct.info.set_code(rng.pick(&p.codes[0..2]).clone());
                    *st.entry("create_code").or_default() += 1;
                } else {
                    acct.info.code_hash = KECCAK_EMPTY;
                    acct.info.code = Some(Bytecode::default());
                    *st.entry("create_nocode").or_default() += 1;
                }
            }
        }
        8 | 9 => {
            // delegation set / re-pointed / set again
            let c = rng.pick(&p.codes[2..4]).clone();
            let again = has_code && c.hash_slow() == pre.code_hash;
            acct.info.set_code(c);
            acct.info.nonce += 1;
            *st.entry(if again { "delegate_same" } else if has_code { "repoint" } else { "delegate_set" }).or_default() += 1;
        }
        10 => {
            if has_code {
                acct.info.code_hash = KECCAK_EMPTY;
                acct.info.code = Some(Bytecode::default());
                *st.entry("delegate_clear").or_default() += 1;
            }
            acct.info.nonce += 1;
        }
        _ => {
            // drained to empty: EIP-161 deletion when it has no code
            acct.info.balance = U256::ZERO;
            if !has_code {
                acct.info.nonce = 0;
                *st.entry("empty_touch").or_default() += 1;
            }
        }
    }
    acct.mark_touch();
    if !acct.is_selfdestructed() {
        for _ in 0..rng.below(3) {
            let s = *rng.pick(&p.slots);
            let orig = if created { U256::ZERO } else { slots_read.get(&s).copied().unwrap_or(U256::ZERO) };
            let present = if rng.chance(1, 6) { orig } else { U256::from(rng.range(0, 9)) };
            acct.storage.insert(s, EvmStorageSlot::new_changed(orig, present, Default::default()));
        }
    }
    acct
}

fn code_bytes(info: &AccountInfo, by_hash: impl FnOnce(B256) -> Option<Bytecode>) -> String {
    if info.code_hash == KECCAK_EMPTY {
        return "-".to_owned();
    }
    match &info.code {
        Some(c) => hcode(&Some(c.clone())),
        None => hcode(&by_hash(info.code_hash)),
    }
}

/// One in-order block; returns the description of the first disagreement with stock revm `State`.
fn prop_case(idx: u64, rng: &mut Rng, st: &mut BTreeMap<&'static str, u64>, evals: &mut u64) -> Option<String> {
    use revm::{Database, DatabaseCommit};
    let p = pools(rng);
    let ben = Address::with_last_byte(0xbb);
    let mut base = Base::default();
    let mut scratch = String::new();
    for c in &p.codes {
        base.code.insert(c.hash_slow(), Some(c.clone()));
    }
    for a in &p.addrs {
        let info = match rng.below(5) {
            0 | 1 => continue,
            2 => AccountInfo { balance: U256::from(rng.range(0, 9)), nonce: rng.range(0, 3), code_hash: KECCAK_EMPTY, account_id: None, code: None },
            _ => {
                let c = rng.pick(&p.codes).clone();
                let attach = rng.chance(1, 2);
                AccountInfo { balance: U256::from(rng.range(0, 9)), nonce: 1, code_hash: c.hash_slow(), account_id: None, code: attach.then_some(c) }
            }
        };
        base.accts.insert(*a, Some(Some(info)));
        for s in &p.slots {
            if rng.chance(1, 2) {
                base.stor.insert((*a, *s), Some(U256::from(rng.range(1, 200))));
            }
        }
    }
    let _ = &mut scratch;
    let ntx = rng.range(2, 9) as usize;
    let env = FlatEnv::new(ben, None, ntx + 1);
    let mut writer = env.db(&base);
    let mut states: Vec<EvmState> = Vec::new();
    let mut descr = String::new();
    // a racing reader: transaction `race_t` executes after only `race_p` < race_t predecessors have
    // published (stale reads); checked at the end against its own read set (see below)
    let race_t = rng.range(1, ntx as u64) as usize;
    let race_p = rng.below(race_t as u64) as usize;
    let mut raced: Option<(Vec<(Loc, Ver)>, Vec<(Address, Option<U256>, String)>)> = None;
    for k in 0..ntx {
        if k == race_p {
            let mut racer = env.db(&base);
            racer.begin(race_t, 5);
            let mut seen = Vec::new();
            for a in &p.addrs {
                if rng.chance(1, 2) {
                    let i = racer.basic(*a).expect("base never fails");
                    seen.push((*a, None, hinfo(&i)));
                }
                for s in &p.slots {
                    if rng.chance(2, 3) {
                        // raw storage read (precompile-style: no account load first)
                        let v = racer.storage(*a, *s).expect("base never fails");
                        seen.push((*a, Some(*s), format!("{v:x}")));
                    }
                }
            }
            let acc = racer.finish(&EvmState::default());
            raced = Some((acc.reads, seen));
        }
        let inc = rng.range(1, 3) as usize;
        writer.begin(k, inc);
        let mut state = EvmState::default();
        for _ in 0..rng.range(1, 2) {
            let a = *rng.pick(&p.addrs);
            if state.contains_key(&a) {
                continue;
            }
            let read = writer.basic(a).expect("base never fails");
            let mut slots_read = HashMap::new();
            for s in &p.slots {
                slots_read.insert(*s, writer.storage(a, *s).expect("base never fails"));
            }
            state.insert(a, prop_account(rng, &p, &read, &slots_read, st));
        }
        writeln!(descr, "tx{k}: {}", print_state(&state)).unwrap();
        writer.finish(&state);
        states.push(state);
    }
    // the racing reader: if every location it recorded still resolves to the recorded version in the
    // final memory (so version validation would accept it), re-reading must give the same values
    if let Some((reads, seen)) = raced {
        let rows = env.dump();
        let valid = reads.iter().all(|(l, v)| {
            let newest = rows.iter().filter(|r| &r.0 == l && r.1 < race_t).map(|r| (r.1, r.2)).max();
            match v {
                Ver::Mv(k, i) => newest == Some((*k, *i)),
                Ver::Storage => newest.is_none(),
                Ver::Ben(_) => true,
            }
        });
        *st.entry(if valid { "race_still_valid" } else { "race_invalidated" }).or_default() += 1;
        if valid {
            let mut again = env.db(&base);
            again.begin(race_t, 6);
            for (a, slot, was) in &seen {
                *evals += 1;
                let now = match slot {
                    None => hinfo(&again.basic(*a).expect("base never fails")),
                    Some(s) => format!("{:x}", again.storage(*a, *s).expect("base never fails")),
                };
                if &now != was {
                    let what = match slot {
                        None => format!("basic({})", ha(a)),
                        Some(s) => format!("storage({},{:x})", ha(a), s),
                    };
                    return Some(format!(
                        "case {idx} racing tx {race_t} (executed after {race_p} predecessors had published) read {what} = {was}; every location in its read set {:?} still resolves to the recorded version after all predecessors published (validation accepts), yet the value is now {now}\n{descr}",
                        reads.iter().map(|(l, v)| format!("{}={:?}", hloc(l), v)).collect::<Vec<_>>()
                    ));
                }
            }
            again.finish(&EvmState::default());
        }
    }
    // sweep against stock revm
    let mut reference = revm_database::StateBuilder::new().with_database_ref(&base).build();
    let mut reader = env.db(&base);
    for t in 0..=ntx {
        reader.begin(t, 7);
        for a in &p.addrs {
            let got = reader.basic(*a).expect("base never fails");
            let want = reference.basic(*a).expect("reference");
            *evals += 1;
            let g = got.as_ref().map(|i| (i.balance, i.nonce, i.code_hash, code_bytes(i, |h| base.code_by_hash_ref(h).ok())));
            let w = want.as_ref().map(|i| (i.balance, i.nonce, i.code_hash, code_bytes(i, |h| reference.code_by_hash(h).ok())));
            if g != w {
                return Some(format!("case {idx} basic({}) at tx {t}: IncarnationDb {:?} in-order revm {:?}\n{descr}", ha(a), g, w));
            }
            for s in &p.slots {
                let got = reader.storage(*a, *s).expect("base never fails");
                let want = reference.storage(*a, *s).expect("reference");
                *evals += 1;
                if got != want {
                    return Some(format!(
                        "case {idx} storage({},{:x}) at tx {t}: IncarnationDb {:x} in-order revm {:x}\n{descr}",
                        ha(a), s, got, want
                    ));
                }
            }
        }
        reader.finish(&EvmState::default());
        if t < ntx {
            reference.commit(states[t].clone());
        }
    }
    None
}

fn main() {
    let a: Vec<String> = std::env::args().collect();
    let (mode, seed, count, outdir) =
        (a[1].as_str(), a[2].parse::<u64>().unwrap(), a[3].parse::<u64>().unwrap(), &a[4]);
    let only: Option<u64> = a.get(5).map(|s| s.parse().unwrap());
    fs::create_dir_all(outdir).unwrap();
    let kv = |m: &BTreeMap<&'static str, u64>| {
        m.iter().map(|(k, v)| format!("\"{k}\":{v}")).collect::<Vec<_>>().join(",")
    };
    if mode == "prop" {
        let mut rng = Rng::new(seed ^ 0x0DD5);
        let mut st = BTreeMap::new();
        let (mut evals, mut fails) = (0u64, String::new());
        let mut nfail = 0;
        for i in 0..count {
            let mut case_rng = rng.fork();
            if only.is_some_and(|o| o != i) {
                continue;
            }
            if let Some(f) = prop_case(i, &mut case_rng, &mut st, &mut evals) {
                nfail += 1;
                if nfail <= 5 {
                    fails.push_str(&f.replace('\n', " | "));
                    fails.push('\n');
                }
            }
        }
        fs::write(format!("{outdir}/prop.fail"), fails).unwrap();
        println!("{{\"cases\":{count},\"reads_compared\":{evals},\"failed_cases\":{nfail},\"effects\":{{{}}}}}", kv(&st));
        return;
    }
    assert_eq!(mode, "seq", "mode must be seq or prop");
    let mut rng = Rng::new(seed ^ 0xF1A7);
    let (mut inp, mut out) = (String::new(), String::new());
    let mut st = Stats::default();
    for i in 0..count {
        let mut case_rng = rng.fork();
        if only.is_some_and(|o| o != i) {
            continue;
        }
        one_case(i, &mut case_rng, &mut inp, &mut out, &mut st);
    }
    fs::write(format!("{outdir}/flat.in"), inp).unwrap();
    fs::write(format!("{outdir}/flat.impl"), out).unwrap();
    println!(
        "{{\"ops\":{{{}}},\"classes\":{{{}}},\"reads_mv\":{},\"reads_base\":{},\"reads_err\":{},\"reads_ben\":{},\"estimate_hits\":{}}}",
        kv(&st.ops),
        kv(&st.classes),
        st.reads_mv,
        st.reads_base,
        st.reads_err,
        st.reads_ben,
        st.est_hits
    );
}
