//! flatblock - block-level differential runs of grevm through its PUBLIC API.
//!
//! For every generated block three executions are compared:
//!   (a) `grevm::Scheduler` on the parallel path (several workers, two different read-delay seeds),
//!   (b) the same Scheduler with `force_sequential`,
//!   (c) stock revm strictly in block order (the oracle; invalid txs are skipped state-free).
//! Per-transaction outcomes and the complete bundle state are compared strictly.
//!
//! Properties under test:
//!   C08 (`destroy`): in-block account deletion, creation and storage reset reach later txs.
//!   C09 (`code`):    in-block code changes (CREATE, EIP-7702 set / re-point / clear / set again)
//!                    reach later txs.
//!
//! CLI: `flatblock <destroy|code> <seed> <count> <outdir> [only_index]`
//! Writes `<outdir>/block-<kind>.cases` (with `only_index`: `<outdir>/block-<kind>-<index>.cases`,
//! so a replay never overwrites the file of the full run) and prints one JSON line on stdout.
//! A case is reproducible from (seed, index): one `rng.fork()` per case index.
//!
//! Verdicts per case line: `OK` (a bundle that differs from revm's only by the missing
//! `contracts[KECCAK_EMPTY]` entry is a MISMATCH of class contracts_keys, counted additionally as
//! contracts_empty_code_only_in_oracle: regression of the incarnation_db.rs:171 repair)
//! (the only difference is that the oracle's `bundle.contracts` holds KECCAK_EMPTY -> empty code and
//! grevm's does not; counted separately in the JSON, see `cmp_contracts`), or
//! `MISMATCH <run> [class] <first difference of every differing section> || <next run> ...`.
//!
//! Environment (aids, all optional):
//!   FLATBLOCK_RUN_TIMEOUT_S=<n>   deadline per grevm run (default 20); on expiry the case is a
//!                                 MISMATCH `[hang]`, the summary is printed and the process exits 0
//!   FLATBLOCK_DUMP=1              full outcomes + bundles on stderr (oracle, and any differing run)
//!   FLATBLOCK_KEEP=0,3,5          with only_index: keep only these tx indices (minimisation)
//!   FLATBLOCK_NONCE0_STORAGE=1    kind code: storage-carrying authorities get nonce 0 (a state stock
//!                                 revm itself treats inconsistently; see `gen_code`)

use std::{
    collections::{BTreeMap, BTreeSet},
    fmt,
    io::Write,
    panic::{AssertUnwindSafe, catch_unwind},
    sync::{
        Arc,
        atomic::{AtomicU64, Ordering},
        mpsc,
    },
    time::{Duration, Instant},
};

use alloy_evm::{EthEvm, Evm, precompiles::PrecompilesMap};
use grevm::{
    DelegatedSafetyConfig, GrevmConfig, ParallelState, ParallelTakeBundle, Scheduler,
    TxExecutionOutcome,
};
use revm::{
    Context, DatabaseCommit, DatabaseRef, MainBuilder, MainContext, handler::EthPrecompiles,
};
use revm_context::{
    BlockEnv, CfgEnv, DBErrorMarker, TxEnv,
    either::Either,
    result::{EVMError, ExecutionResult},
    transaction::{Authorization, RecoveredAuthority, RecoveredAuthorization},
};
use revm_database::{
    AccountRevert, AccountStatus, BundleAccount, BundleState, PlainAccount, StateBuilder,
    states::{StorageSlot, bundle_state::BundleRetention},
};
use revm_inspector::NoOpInspector;
use revm_primitives::{
    Address, B256, Bytes, HashMap, KECCAK_EMPTY, TxKind, U256, alloy_primitives::U160,
    hardfork::SpecId, keccak256,
};
use revm_state::{AccountInfo, Bytecode};
use verif_harness::rng::Rng;

// ------------------------------------------------------------------------------------------------
// In-memory database (re-implementation of grevm::test_utils::common::storage::InMemoryDB)
// ------------------------------------------------------------------------------------------------

#[derive(Debug, Clone)]
struct DbErr(String);
impl fmt::Display for DbErr {
    fn fmt(&self, f: &mut fmt::Formatter<'_>) -> fmt::Result {
        write!(f, "{}", self.0)
    }
}
impl DBErrorMarker for DbErr {}
impl std::error::Error for DbErr {}

#[derive(Debug, Default, Clone)]
struct MemDb {
    accounts: HashMap<Address, PlainAccount>,
    bytecodes: HashMap<B256, Bytecode>,
}

impl MemDb {
    fn put_eoa(&mut self, a: Address, balance: u128, nonce: u64, storage: &[(u64, u64)]) {
        self.accounts.insert(
            a,
            PlainAccount {
                info: AccountInfo {
                    balance: U256::from(balance),
                    nonce,
                    code_hash: KECCAK_EMPTY,
                    code: None,
                    ..Default::default()
                },
                storage: storage.iter().map(|&(k, v)| (U256::from(k), U256::from(v))).collect(),
            },
        );
    }
    fn put_bytecode(
        &mut self,
        a: Address,
        code: Bytecode,
        balance: u128,
        nonce: u64,
        storage: &[(u64, u64)],
    ) {
        let hash = code.hash_slow();
        self.accounts.insert(
            a,
            PlainAccount {
                info: AccountInfo {
                    balance: U256::from(balance),
                    nonce,
                    code_hash: hash,
                    code: Some(code.clone()),
                    ..Default::default()
                },
                storage: storage.iter().map(|&(k, v)| (U256::from(k), U256::from(v))).collect(),
            },
        );
        self.bytecodes.insert(hash, code);
    }
    fn put_code(&mut self, a: Address, code: &[u8], balance: u128, storage: &[(u64, u64)]) {
        self.put_bytecode(a, Bytecode::new_raw(code.to_vec().into()), balance, 1, storage);
    }
}

/// `DatabaseRef` over a shared `MemDb` which, driven by `seed`, sleeps 0..300 microseconds on some
/// reads of the "hot" (victim / authority) addresses so that reads race the destroying / re-pointing
/// transaction. `seed == 0` disables all delays (oracle and forced-sequential runs).
#[derive(Debug, Clone)]
struct DelayDb {
    inner: Arc<MemDb>,
    hot: Arc<BTreeSet<Address>>,
    seed: u64,
    ctr: Arc<AtomicU64>,
}

impl DelayDb {
    fn new(inner: Arc<MemDb>, hot: Arc<BTreeSet<Address>>, seed: u64) -> Self {
        Self { inner, hot, seed, ctr: Arc::new(AtomicU64::new(0)) }
    }
    fn maybe_sleep(&self, tag: u64) {
        if self.seed == 0 {
            return;
        }
        let c = self.ctr.fetch_add(1, Ordering::Relaxed);
        let mut r = Rng::new(self.seed ^ c.wrapping_mul(0xD134_2543_DE82_EF95) ^ (tag << 56));
        if r.chance(2, 5) {
            let us = r.below(301);
            if us > 0 {
                std::thread::sleep(Duration::from_micros(us));
            }
        }
    }
}

impl DatabaseRef for DelayDb {
    type Error = DbErr;

    fn basic_ref(&self, address: Address) -> Result<Option<AccountInfo>, Self::Error> {
        if self.hot.contains(&address) {
            self.maybe_sleep(1);
        }
        Ok(self.inner.accounts.get(&address).map(|a| a.info.clone()))
    }

    fn code_by_hash_ref(&self, code_hash: B256) -> Result<Bytecode, Self::Error> {
        self.maybe_sleep(2);
        self.inner
            .bytecodes
            .get(&code_hash)
            .cloned()
            .ok_or_else(|| DbErr(format!("can't find code by hash {code_hash}")))
    }

    fn storage_ref(&self, address: Address, index: U256) -> Result<U256, Self::Error> {
        if self.hot.contains(&address) {
            self.maybe_sleep(3);
        }
        // A real state database answers zero for a slot of an account it does not know.
        Ok(self
            .inner
            .accounts
            .get(&address)
            .and_then(|a| a.storage.get(&index).cloned())
            .unwrap_or_default())
    }

    fn block_hash_ref(&self, number: u64) -> Result<B256, Self::Error> {
        Ok(keccak256(number.to_string().as_bytes()))
    }
}

// ------------------------------------------------------------------------------------------------
// The three executions
// ------------------------------------------------------------------------------------------------

type RunOutput = (Vec<TxExecutionOutcome>, BundleState);

/// Stock revm, strictly in block order; follows `execute_revm_sequential_skipping_invalid`:
/// every transaction-validation error is a state-free skip, everything else is fatal.
fn run_oracle(db: DelayDb, cfg: CfgEnv, env: BlockEnv, txs: &[TxEnv]) -> Result<RunOutput, String> {
    let spec = cfg.spec;
    let db = StateBuilder::new().with_bundle_update().with_database_ref(db).build();
    let evm = Context::mainnet()
        .with_db(db)
        .with_cfg(cfg)
        .with_block(env)
        .build_mainnet_with_inspector(NoOpInspector {})
        .with_precompiles(PrecompilesMap::from_static(EthPrecompiles::new(spec).precompiles));
    let mut evm = EthEvm::new(evm, false);

    let mut outcomes = Vec::with_capacity(txs.len());
    for (i, tx) in txs.iter().enumerate() {
        match evm.transact_raw(tx.clone()) {
            Ok(result_and_state) => {
                evm.db_mut().commit(result_and_state.state);
                outcomes.push(TxExecutionOutcome::Executed(result_and_state.result));
            }
            Err(EVMError::Transaction(error)) => outcomes.push(TxExecutionOutcome::Skipped(error)),
            Err(other) => return Err(format!("oracle fatal error at tx {i}: {other:?}")),
        }
    }
    evm.db_mut().merge_transitions(BundleRetention::Reverts);
    Ok((outcomes, evm.db_mut().take_bundle()))
}

fn panic_message(p: Box<dyn std::any::Any + Send>) -> String {
    if let Some(s) = p.downcast_ref::<&str>() {
        (*s).to_owned()
    } else if let Some(s) = p.downcast_ref::<String>() {
        s.clone()
    } else {
        "<non-string panic payload>".to_owned()
    }
}

/// Run grevm's Scheduler on a helper thread with a deadline (`FLATBLOCK_RUN_TIMEOUT_S`, default
/// 60 s; a block takes milliseconds, the margin is for a loaded machine). A panic is caught and reported. On expiry the run is reported as a hang; the stuck
/// scheduler threads cannot be joined, so the driver then writes its summary and exits.
fn run_timeout_secs() -> u64 {
    std::env::var("FLATBLOCK_RUN_TIMEOUT_S").ok().and_then(|v| v.parse().ok()).unwrap_or(60)
}
fn run_grevm(
    db: DelayDb,
    cfg: CfgEnv,
    env: BlockEnv,
    txs: Arc<Vec<TxEnv>>,
    gcfg: GrevmConfig,
) -> Result<RunOutput, String> {
    let (send, recv) = mpsc::channel();
    std::thread::spawn(move || {
        let r = catch_unwind(AssertUnwindSafe(|| -> Result<RunOutput, String> {
            let state = ParallelState::new(db, true, true);
            let scheduler = Scheduler::new_with_runtime_config(cfg, env, txs, state, None, gcfg);
            let res = scheduler.execute();
            let (outcomes, mut state) = scheduler.take_result_and_state();
            match res {
                Err(e) => Err(format!(
                    "[execute_error] execute() error at tx {} after {} outcomes: {:?}",
                    e.txid,
                    outcomes.len(),
                    e.error
                )),
                Ok(()) => Ok((outcomes, state.parallel_take_bundle(BundleRetention::Reverts))),
            }
        }));
        let _ = send.send(match r {
            Ok(v) => v,
            Err(p) => Err(format!("[panic] panicked: {}", panic_message(p))),
        });
    });
    let secs = run_timeout_secs();
    match recv.recv_timeout(Duration::from_secs(secs)) {
        Ok(v) => v,
        Err(_) => Err(format!("[hang] hang: scheduler did not finish within {secs} s")),
    }
}

// ------------------------------------------------------------------------------------------------
// Strict, non-panicking comparison
// ------------------------------------------------------------------------------------------------

fn short<T: fmt::Debug>(t: &T) -> String {
    let s = format!("{t:?}");
    let s: String = s.split_whitespace().collect::<Vec<_>>().join(" ");
    if s.len() > 260 { format!("{}...", &s[..260]) } else { s }
}

fn cmp_outcomes(exp: &[TxExecutionOutcome], act: &[TxExecutionOutcome]) -> Result<(), String> {
    for (i, (e, a)) in exp.iter().zip(act.iter()).enumerate() {
        if e != a {
            return Err(format!("[outcome] tx {i}: oracle {} grevm {}", short(e), short(a)));
        }
    }
    if exp.len() != act.len() {
        return Err(format!("[outcome] count: oracle {} grevm {}", exp.len(), act.len()));
    }
    Ok(())
}

const KNOWN_EMPTY_CODE: &str = "[known:contracts_empty_code_only_in_oracle]";

/// `bundle.contracts`: same key set (and the same bytes under each key).
fn cmp_contracts(exp: &BundleState, act: &BundleState) -> Result<(), String> {
    let ec: BTreeSet<&B256> = exp.contracts.keys().collect();
    let ac: BTreeSet<&B256> = act.contracts.keys().collect();
    if ec != ac {
        let only_o: Vec<_> = ec.difference(&ac).collect();
        let only_g: Vec<_> = ac.difference(&ec).collect();
        if only_g.is_empty() && only_o.len() == 1 && **only_o[0] == KECCAK_EMPTY {
            // Formerly tolerated, now a MISMATCH (see `run_case`): stock revm keeps `code: Some(empty)` on an
            // account it materialised earlier in the block, so the merged transition registers
            // contracts[KECCAK_EMPTY] = empty bytecode; grevm's multi-version memory hands later
            // transactions `code: None`, and when the last writer never loads the code (e.g. the
            // account is only a SELFDESTRUCT heir / inner value recipient) the entry is absent.
            // All other keys and all bytes must still agree.
            for (h, code) in act.contracts.iter() {
                if code.original_bytes() != exp.contracts[h].original_bytes() {
                    return Err(format!("[contracts_bytes] bundle.contracts[{h}] bytes differ"));
                }
            }
            return Err(KNOWN_EMPTY_CODE.to_owned());
        }
        return Err(format!(
            "[contracts_keys] bundle.contracts keys: only-oracle {} only-grevm {}",
            short(&only_o),
            short(&only_g)
        ));
    }
    for (h, code) in exp.contracts.iter() {
        if code.original_bytes() != act.contracts[h].original_bytes() {
            return Err(format!("[contracts_bytes] bundle.contracts[{h}] bytes differ"));
        }
    }
    Ok(())
}

/// `bundle.state`: same key set, then per account info / original_info / status / storage.
fn cmp_state(exp: &BundleState, act: &BundleState) -> Result<(), String> {
    let es: BTreeMap<&Address, &BundleAccount> = exp.state.iter().collect();
    let as_: BTreeMap<&Address, &BundleAccount> = act.state.iter().collect();
    let only_o: Vec<_> = es.keys().filter(|k| !as_.contains_key(**k)).collect();
    let only_g: Vec<_> = as_.keys().filter(|k| !es.contains_key(**k)).collect();
    if !only_o.is_empty() || !only_g.is_empty() {
        return Err(format!(
            "[state_keys] bundle.state keys: only-oracle {} only-grevm {}",
            short(&only_o),
            short(&only_g)
        ));
    }
    for (addr, e) in es.iter() {
        let a = as_[*addr];
        if e.info != a.info {
            return Err(format!(
                "[info] {addr} info: oracle {} grevm {}",
                short(&e.info),
                short(&a.info)
            ));
        }
        if e.original_info != a.original_info {
            return Err(format!(
                "[original_info] {addr} original_info: oracle {} grevm {}",
                short(&e.original_info),
                short(&a.original_info)
            ));
        }
        if e.status != a.status {
            return Err(format!(
                "[status] {addr} status: oracle {:?} grevm {:?}",
                e.status, a.status
            ));
        }
        let est: BTreeMap<&U256, &StorageSlot> = e.storage.iter().collect();
        let ast: BTreeMap<&U256, &StorageSlot> = a.storage.iter().collect();
        if est != ast {
            for (k, v) in est.iter() {
                match ast.get(*k) {
                    None => {
                        return Err(format!(
                            "[storage] {addr} slot {k}: oracle {} grevm <absent>",
                            short(v)
                        ));
                    }
                    Some(w) if w != v => {
                        return Err(format!(
                            "[storage] {addr} slot {k}: oracle {} grevm {}",
                            short(v),
                            short(w)
                        ));
                    }
                    _ => {}
                }
            }
            for (k, w) in ast.iter() {
                if !est.contains_key(*k) {
                    return Err(format!(
                        "[storage] {addr} slot {k}: oracle <absent> grevm {}",
                        short(w)
                    ));
                }
            }
            return Err(format!("[storage] {addr} storage maps differ"));
        }
    }
    Ok(())
}

/// `bundle.reverts`: per transition index as address-keyed maps.
fn cmp_reverts(exp: &BundleState, act: &BundleState) -> Result<(), String> {
    if exp.reverts.len() != act.reverts.len() {
        return Err(format!(
            "[reverts] length: oracle {} grevm {}",
            exp.reverts.len(),
            act.reverts.len()
        ));
    }
    for (i, (er, ar)) in exp.reverts.iter().zip(act.reverts.iter()).enumerate() {
        let em: BTreeMap<&Address, &AccountRevert> = er.iter().map(|(k, v)| (k, v)).collect();
        let am: BTreeMap<&Address, &AccountRevert> = ar.iter().map(|(k, v)| (k, v)).collect();
        if em.len() != er.len() || am.len() != ar.len() {
            return Err(format!(
                "[reverts] reverts[{i}] duplicate address: oracle {}/{} grevm {}/{}",
                em.len(),
                er.len(),
                am.len(),
                ar.len()
            ));
        }
        for (addr, v) in em.iter() {
            match am.get(*addr) {
                None => {
                    return Err(format!(
                        "[reverts] reverts[{i}] {addr}: oracle {} grevm <absent>",
                        short(v)
                    ));
                }
                Some(w) if w != v => {
                    return Err(format!(
                        "[reverts] reverts[{i}] {addr}: oracle {} grevm {}",
                        short(v),
                        short(w)
                    ));
                }
                _ => {}
            }
        }
        for (addr, w) in am.iter() {
            if !em.contains_key(*addr) {
                return Err(format!(
                    "[reverts] reverts[{i}] {addr}: oracle <absent> grevm {}",
                    short(w)
                ));
            }
        }
    }
    Ok(())
}

fn cmp_sizes(exp: &BundleState, act: &BundleState) -> Result<(), String> {
    if exp.state_size != act.state_size {
        return Err(format!(
            "[sizes] state_size: oracle {} grevm {}",
            exp.state_size, act.state_size
        ));
    }
    if exp.reverts_size != act.reverts_size {
        return Err(format!(
            "[sizes] reverts_size: oracle {} grevm {}",
            exp.reverts_size, act.reverts_size
        ));
    }
    Ok(())
}

/// Strict comparison of one grevm run against the oracle. Every section is checked (none masks
/// another); the message lists the first difference of each differing section, each prefixed by
/// its `[class]`.
///
/// `Ok(true)` means: identical except for the single `bundle.contracts` KECCAK_EMPTY difference
/// (`KNOWN_EMPTY_CODE`), which the caller counts separately and reports as a MISMATCH.
fn cmp_run(exp: &RunOutput, act: &RunOutput) -> Result<bool, String> {
    let diffs: Vec<String> = [
        cmp_outcomes(&exp.0, &act.0),
        cmp_state(&exp.1, &act.1),
        cmp_reverts(&exp.1, &act.1),
        cmp_sizes(&exp.1, &act.1),
        cmp_contracts(&exp.1, &act.1),
    ]
    .into_iter()
    .filter_map(Result::err)
    .collect();
    if diffs.is_empty() {
        Ok(false)
    } else if diffs.len() == 1 && diffs[0] == KNOWN_EMPTY_CODE {
        Ok(true)
    } else {
        Err(diffs.join(" & "))
    }
}

// ------------------------------------------------------------------------------------------------
// Addresses and bytecode builders
// ------------------------------------------------------------------------------------------------

const ONE_ETHER: u128 = 1_000_000_000_000_000_000;
const CALL_GAS: u64 = 300_000;
const CREATE_GAS: u64 = 500_000;

fn addr(n: u64) -> Address {
    Address::from(U160::from(n))
}
fn eoa(i: usize) -> Address {
    addr(1000 + i as u64)
}
fn miner() -> Address {
    addr(0xff)
}
fn receiver() -> Address {
    addr(1900)
}
/// An address that is never in the base DB (selfdestruct heir that has to be created).
fn fresh() -> Address {
    addr(970_000)
}

fn push20(code: &mut Vec<u8>, a: Address) {
    code.push(0x73);
    code.extend_from_slice(a.as_slice());
}

/// `PUSH20 heir; SELFDESTRUCT`
fn selfdestruct_to(heir: Address) -> Vec<u8> {
    let mut c = Vec::new();
    push20(&mut c, heir);
    c.push(0xff);
    c
}

/// `slot0 += 1; if <trigger> != 0 { SELFDESTRUCT(heir) }` with trigger CALLDATASIZE (0x36) or
/// CALLVALUE (0x34): later txs SLOAD/SSTORE the victim's own storage after destruction/recreation.
fn counter(heir: Address, trigger: u8) -> Vec<u8> {
    let mut c = vec![0x60, 0x00, 0x54, 0x60, 0x01, 0x01, 0x60, 0x00, 0x55];
    c.extend_from_slice(&[trigger, 0x15, 0x60, 0x24, 0x57]); // trigger ISZERO PUSH1 36 JUMPI
    push20(&mut c, heir); // 14..35
    c.push(0xff); // 35
    c.extend_from_slice(&[0x5b, 0x00]); // 36 JUMPDEST, STOP
    debug_assert_eq!(c.len(), 38);
    c
}

/// `PUSH1 value; PUSH1 0; SSTORE; STOP`
fn sstore_code(value: u8) -> Vec<u8> {
    vec![0x60, value, 0x60, 0x00, 0x55, 0x00]
}
/// `slot0 += 1; STOP`
fn incr_code() -> Vec<u8> {
    vec![0x60, 0x00, 0x54, 0x60, 0x01, 0x01, 0x60, 0x00, 0x55, 0x00]
}

/// Initcode: constructor SSTOREs `writes`, then returns `runtime`.
fn ctor_init(writes: &[(u8, u8)], runtime: &[u8]) -> Vec<u8> {
    assert!(runtime.len() < 256);
    let mut c = Vec::new();
    for &(slot, val) in writes {
        c.extend_from_slice(&[0x60, val, 0x60, slot, 0x55]);
    }
    let len = runtime.len() as u8;
    let off = (c.len() + 12) as u8;
    c.extend_from_slice(&[0x60, len, 0x60, off, 0x60, 0x00, 0x39, 0x60, len, 0x60, 0x00, 0xf3]);
    c.extend_from_slice(runtime);
    assert!(c.len() < 256);
    c
}

/// Observer: stores BALANCE / EXTCODESIZE / EXTCODEHASH (from PETERSBURG) / first word of
/// EXTCODECOPY (when `with_copy`) of `observed` into its own slots 0..3 and returns them, so the
/// observation lands both in the bundle and in the transaction outcome. No other SLOAD.
fn probe_code(observed: Address, spec: SpecId, with_copy: bool) -> Vec<u8> {
    let mut c = Vec::new();
    push20(&mut c, observed);
    c.extend_from_slice(&[0x31, 0x80, 0x60, 0x00, 0x55, 0x60, 0x00, 0x52]);
    push20(&mut c, observed);
    c.extend_from_slice(&[0x3b, 0x80, 0x60, 0x01, 0x55, 0x60, 0x20, 0x52]);
    if spec.is_enabled_in(SpecId::PETERSBURG) {
        push20(&mut c, observed);
        c.extend_from_slice(&[0x3f, 0x80, 0x60, 0x02, 0x55, 0x60, 0x40, 0x52]);
    }
    if with_copy {
        c.extend_from_slice(&[0x60, 0x20, 0x60, 0x00, 0x60, 0x60]);
        push20(&mut c, observed);
        c.push(0x3c);
        c.extend_from_slice(&[0x60, 0x60, 0x51, 0x60, 0x03, 0x55]);
    }
    c.extend_from_slice(&[0x60, 0x80, 0x60, 0x00, 0xf3]);
    c
}

/// `CALL(victim, value 0, 1 byte of input)` pushing the success flag.
fn call_victim(c: &mut Vec<u8>, victim: Address) {
    c.extend_from_slice(&[0x60, 0x00, 0x60, 0x00, 0x60, 0x01, 0x60, 0x00, 0x60, 0x00]);
    push20(c, victim);
    c.extend_from_slice(&[0x62, 0x01, 0xff, 0xff, 0xf1]);
}

/// Call `victim` (1 byte of calldata, so both victim flavours selfdestruct), then REVERT: the inner
/// deletion must not leak. (Before BYZANTIUM 0xfd is an invalid opcode, which also rolls back.)
fn parent_revert(victim: Address) -> Vec<u8> {
    let mut c = Vec::new();
    call_victim(&mut c, victim);
    c.extend_from_slice(&[0x50, 0x60, 0x00, 0x60, 0x00, 0xfd]);
    c
}

/// Call `victim` like `parent_revert` but succeed, recording success flag (slot2), BALANCE (slot0)
/// and EXTCODESIZE (slot1) of the victim observed in the same transaction.
fn parent_observe(victim: Address) -> Vec<u8> {
    let mut c = Vec::new();
    call_victim(&mut c, victim);
    c.extend_from_slice(&[0x60, 0x02, 0x55]);
    push20(&mut c, victim);
    c.extend_from_slice(&[0x31, 0x60, 0x00, 0x55]);
    push20(&mut c, victim);
    c.extend_from_slice(&[0x3b, 0x60, 0x01, 0x55, 0x00]);
    c
}

/// Factory: `slot0 := CREATE2(value 0, init, salt 0)`.
fn create2_factory(init: &[u8]) -> Vec<u8> {
    let m = init.len() as u8;
    let mut c = vec![
        0x60, m, 0x60, 0x14, 0x60, 0x00, 0x39, // CODECOPY init -> mem[0]
        0x60, 0x00, 0x60, m, 0x60, 0x00, 0x60, 0x00, 0xf5, // CREATE2
        0x60, 0x00, 0x55, 0x00, // SSTORE slot0, STOP
    ];
    debug_assert_eq!(c.len(), 0x14);
    c.extend_from_slice(init);
    c
}

/// Factory that CREATE2s `init` and immediately CALLs the new contract with one byte of calldata
/// (create + selfdestruct inside one transaction; a real deletion on every fork).
fn create2_factory_kill(init: &[u8]) -> Vec<u8> {
    let m = init.len() as u8;
    let mut c = vec![
        0x60, m, 0x60, 0x27, 0x60, 0x00, 0x39, // CODECOPY
        0x60, 0x00, 0x60, m, 0x60, 0x00, 0x60, 0x00, 0xf5, // CREATE2 -> addr
        0x80, 0x60, 0x00, 0x55, // DUP1, SSTORE slot0
        0x60, 0x00, 0x60, 0x00, 0x60, 0x01, 0x60, 0x00, 0x60, 0x00, // out, in(0,1), value
        0x85, // DUP6 addr
        0x62, 0x01, 0xff, 0xff, // gas
        0xf1, 0x50, 0x50, 0x00, // CALL POP POP STOP
    ];
    debug_assert_eq!(c.len(), 0x27);
    c.extend_from_slice(init);
    c
}

fn call_tx(i: usize, to: Address, data: &[u8], value: u64, gas_price: u128) -> TxEnv {
    TxEnv {
        caller: eoa(i),
        kind: TxKind::Call(to),
        data: Bytes::from(data.to_vec()),
        value: U256::from(value),
        gas_limit: CALL_GAS,
        gas_price,
        nonce: 1,
        ..TxEnv::default()
    }
}

fn create_tx(i: usize, init: Vec<u8>, gas_price: u128) -> TxEnv {
    TxEnv {
        caller: eoa(i),
        kind: TxKind::Create,
        data: Bytes::from(init),
        gas_limit: CREATE_GAS,
        gas_price,
        nonce: 1,
        ..TxEnv::default()
    }
}

// ------------------------------------------------------------------------------------------------
// Generated case
// ------------------------------------------------------------------------------------------------

struct Case {
    spec: SpecId,
    workers: usize,
    disable_nonce_check: bool,
    beneficiary: Address,
    db: MemDb,
    txs: Vec<TxEnv>,
    hot: BTreeSet<Address>,
    desc: String,
    feats: BTreeSet<&'static str>,
}

const ALL_SPECS: [SpecId; 13] = [
    SpecId::FRONTIER,
    SpecId::HOMESTEAD,
    SpecId::TANGERINE,
    SpecId::SPURIOUS_DRAGON,
    SpecId::BYZANTIUM,
    SpecId::PETERSBURG,
    SpecId::ISTANBUL,
    SpecId::BERLIN,
    SpecId::LONDON,
    SpecId::SHANGHAI,
    SpecId::CANCUN,
    SpecId::PRAGUE,
    SpecId::OSAKA,
];

const DESTROY_FEATS: [&str; 12] = [
    "invalid_tx_skipped",
    "destroy",
    "create",
    "recreate_same_address",
    "create_destroy_one_tx",
    "eip161_empty_touch",
    "empty_touch_with_storage",
    "probe_after_deletion",
    "reverted_inner_selfdestruct",
    "value_to_destroyed",
    "beneficiary_is_victim",
    "storage_rw_after_recreate",
];

const CODE_FEATS: [&str; 18] = [
    "invalid_sender_nonce",
    "deploy",
    "delegation_set",
    "re_point",
    "clear",
    "set_again_previous_target",
    "multiple_authorities",
    "repeated_authority_one_tx",
    "invalid_auth_wrong_nonce",
    "invalid_auth_wrong_chain",
    "call_delegated_account",
    "extcode_probe",
    "tx_from_delegated_account",
    "self_sponsored",
    "pre_delegated_base",
    "authority_with_storage",
    "delegate_to_in_block_created",
    "beneficiary_code_changes",
];

fn fund_senders(db: &mut MemDb, n: usize) {
    for i in 0..n {
        db.put_eoa(eoa(i), ONE_ETHER, 1, &[]);
    }
    db.put_eoa(receiver(), ONE_ETHER, 1, &[]);
    db.put_eoa(miner(), 0, 1, &[]);
}

// ---- kind = destroy (C08) ----------------------------------------------------------------------

#[derive(Clone, Copy, PartialEq, Eq, Debug)]
enum Pre {
    Missing,
    EmptyStorage,
    Sd,
    Counter(u8),
}

#[derive(Clone, Copy, PartialEq, Eq, Debug)]
enum Recreate {
    No,
    Factory,
    CreateTx(usize),
}

/// Abstract liveness the generator tracks only to label features.
#[derive(Clone, Copy, PartialEq, Eq, Debug)]
enum Abs {
    Absent,
    Empty,
    Sd,
    Counter(u8),
}

fn gen_destroy(rng: &mut Rng) -> Case {
    let spec = *rng.pick(&ALL_SPECS);
    let n = rng.range(4, 16) as usize;
    let workers = rng.range(2, 8) as usize;
    let nv = rng.range(2, 4) as usize;
    let has_create2 = spec.is_enabled_in(SpecId::PETERSBURG);
    let pre_cancun = !spec.is_enabled_in(SpecId::CANCUN);
    let mut feats: BTreeSet<&'static str> = BTreeSet::new();
    let mut db = MemDb::default();
    fund_senders(&mut db, n);

    // 1. how each victim can be (re)created
    let mut recreate = Vec::new();
    let mut used_k: BTreeSet<usize> = BTreeSet::new();
    for _ in 0..nv {
        let roll = rng.below(100);
        let mode = if roll < 40 {
            Recreate::No
        } else if roll < 75 && has_create2 {
            Recreate::Factory
        } else {
            // creator tx somewhere in the later two thirds, so a destroy can precede it
            let k = rng.range((n / 3) as u64, (n - 1) as u64) as usize;
            if used_k.insert(k) { Recreate::CreateTx(k) } else { Recreate::No }
        };
        recreate.push(mode);
    }

    // 2. addresses; recreated runtime is always a calldata-triggered counter with a fixed heir
    let mut inits: Vec<Vec<u8>> = Vec::new();
    let mut vaddr: Vec<Address> = Vec::new();
    for (vi, mode) in recreate.iter().enumerate() {
        let heir = if rng.chance(1, 2) { receiver() } else { fresh() };
        // The constructor often leaves slot 0 unwritten: the recreated counter's SLOAD(0) must then
        // observe the storage reset (0), not the slot value of the destroyed predecessor.
        let writes: Vec<(u8, u8)> = match rng.below(3) {
            0 => vec![(0, 100 + vi as u8), (1, 7)],
            1 => vec![(1, 7)],
            _ => vec![],
        };
        let init = ctor_init(&writes, &counter(heir, 0x36));
        let a = match mode {
            Recreate::No => addr(930_000 + vi as u64),
            Recreate::Factory => {
                addr(920_000 + vi as u64).create2(B256::ZERO, keccak256(&init))
            }
            Recreate::CreateTx(k) => eoa(*k).create(1),
        };
        inits.push(init);
        vaddr.push(a);
    }

    // 3. beneficiary
    let beneficiary = if rng.chance(1, 4) {
        feats.insert("beneficiary_is_victim");
        *rng.pick(&vaddr)
    } else {
        miner()
    };

    // 4. pre-installed content of each victim
    let mut pre = Vec::new();
    let mut abs = Vec::new();
    let mut vdesc = Vec::new();
    for vi in 0..nv {
        let roll = rng.below(100);
        let p = if recreate[vi] == Recreate::No {
            if roll < 35 {
                Pre::Sd
            } else if roll < 70 {
                Pre::Counter(if rng.chance(2, 3) { 0x36 } else { 0x34 })
            } else if roll < 85 {
                Pre::Missing
            } else {
                Pre::EmptyStorage
            }
        } else if roll < 30 {
            Pre::Sd
        } else if roll < 60 {
            Pre::Counter(if rng.chance(2, 3) { 0x36 } else { 0x34 })
        } else if roll < 85 {
            Pre::Missing
        } else {
            // creation on top of an empty account that still carries storage in the base DB:
            // only the creation itself resets the storage
            Pre::EmptyStorage
        };
        let (heir, hname) = match rng.below(5) {
            0 => (receiver(), "R".to_owned()),
            1 => (fresh(), "F".to_owned()),
            2 => (vaddr[vi], "self".to_owned()),
            3 => {
                let o = rng.below(nv as u64) as usize;
                (vaddr[o], format!("V{o}"))
            }
            _ => (beneficiary, "ben".to_owned()),
        };
        let a = vaddr[vi];
        let (d, st) = match p {
            Pre::Missing => ("miss".to_owned(), Abs::Absent),
            Pre::EmptyStorage => {
                db.put_eoa(a, 0, 0, &[(0, 42)]);
                ("emptyS".to_owned(), Abs::Empty)
            }
            Pre::Sd => {
                db.put_code(a, &selfdestruct_to(heir), 777, &[(0, 42), (1, 7)]);
                (format!("sd>{hname}"), Abs::Sd)
            }
            Pre::Counter(t) => {
                db.put_code(a, &counter(heir, t), 777, &[(0, 42), (3, 9)]);
                (format!("ctr({})>{hname}", if t == 0x36 { "cd" } else { "cv" }), Abs::Counter(t))
            }
        };
        let r = match recreate[vi] {
            Recreate::No => String::new(),
            Recreate::Factory => "@c2".to_owned(),
            Recreate::CreateTx(k) => format!("@tx{k}"),
        };
        vdesc.push(format!("V{vi}={d}{r}"));
        pre.push(p);
        abs.push(st);
        // helpers per victim
        db.put_code(addr(940_000 + vi as u64), &probe_code(a, spec, false), 0, &[]);
        db.put_code(addr(950_000 + vi as u64), &parent_revert(a), 0, &[]);
        db.put_code(addr(960_000 + vi as u64), &parent_observe(a), 0, &[]);
        if recreate[vi] == Recreate::Factory {
            db.put_code(addr(920_000 + vi as u64), &create2_factory(&inits[vi]), 0, &[]);
        }
    }
    // create-and-kill factory with its own transient address K and a probe of K
    let kill_init = ctor_init(&[(0, 55)], &counter(receiver(), 0x36));
    let kill_factory = addr(925_000);
    let kaddr = kill_factory.create2(B256::ZERO, keccak256(&kill_init));
    if has_create2 {
        db.put_code(kill_factory, &create2_factory_kill(&kill_init), 0, &[]);
        db.put_code(addr(945_000), &probe_code(kaddr, spec, false), 0, &[]);
    }

    // 5. transactions
    let mut txs = Vec::new();
    let mut tdesc = Vec::new();
    let mut destroyed_before = vec![false; nv]; // a destroy intent happened on victim earlier
    let mut recreated = vec![false; nv];
    // a few blocks carry one transaction the oracle rejects (value above the sender's balance)
    let broke_at: Option<usize> =
        if rng.chance(3, 20) { Some(rng.below(n as u64) as usize) } else { None };
    for i in 0..n {
        let gp: u128 = if rng.chance(1, 4) { 0 } else { 1 };
        let gpm = if gp == 0 { "~" } else { "" };
        if broke_at == Some(i) && !(0..nv).any(|vi| recreate[vi] == Recreate::CreateTx(i)) {
            let vi = rng.below(nv as u64) as usize;
            feats.insert("invalid_tx_skipped");
            txs.push(call_tx(i, vaddr[vi], &[0x01], 2 * ONE_ETHER as u64, gp));
            tdesc.push(format!("{i}:broke(V{vi}){gpm}"));
            continue;
        }
        // forced CREATE tx of a victim
        if let Some(vi) = (0..nv).find(|&vi| recreate[vi] == Recreate::CreateTx(i)) {
            txs.push(create_tx(i, inits[vi].clone(), gp));
            feats.insert("create");
            if destroyed_before[vi] {
                feats.insert("recreate_same_address");
            }
            if matches!(abs[vi], Abs::Absent | Abs::Empty) {
                abs[vi] = Abs::Counter(0x36);
                recreated[vi] = destroyed_before[vi];
            }
            tdesc.push(format!("{i}:create(V{vi}){gpm}"));
            continue;
        }
        let vi = rng.below(nv as u64) as usize;
        let a = vaddr[vi];
        // what a successful (non-reverted) call does to the abstract state
        let mut note_call = |with_data: bool, value: u64, abs: &mut Vec<Abs>, feats: &mut BTreeSet<&'static str>| {
            let destroys = match abs[vi] {
                Abs::Sd => true,
                Abs::Counter(0x36) => with_data,
                Abs::Counter(_) => value > 0,
                _ => false,
            };
            if matches!(abs[vi], Abs::Counter(_)) && recreated[vi] {
                feats.insert("storage_rw_after_recreate");
            }
            if destroys {
                feats.insert("destroy");
                destroyed_before[vi] = true;
                if pre_cancun {
                    abs[vi] = Abs::Absent;
                }
            } else if matches!(abs[vi], Abs::Absent | Abs::Empty) {
                if value == 0 {
                    feats.insert("eip161_empty_touch");
                    if abs[vi] == Abs::Empty && pre[vi] == Pre::EmptyStorage {
                        feats.insert("empty_touch_with_storage");
                    }
                } else {
                    if destroyed_before[vi] {
                        feats.insert("value_to_destroyed");
                    }
                    abs[vi] = Abs::Empty;
                }
            }
        };
        let roll = rng.below(115);
        if roll < 20 {
            note_call(false, 0, &mut abs, &mut feats);
            txs.push(call_tx(i, a, &[], 0, gp));
            tdesc.push(format!("{i}:c(V{vi}){gpm}"));
        } else if roll < 40 {
            note_call(true, 0, &mut abs, &mut feats);
            txs.push(call_tx(i, a, &[0x01], 0, gp));
            tdesc.push(format!("{i}:cd(V{vi}){gpm}"));
        } else if roll < 52 {
            let value = rng.range(1, 1000);
            note_call(false, value, &mut abs, &mut feats);
            txs.push(call_tx(i, a, &[], value, gp));
            tdesc.push(format!("{i}:cv(V{vi},{value}){gpm}"));
        } else if roll < 72 {
            if destroyed_before[vi] {
                feats.insert("probe_after_deletion");
            }
            txs.push(call_tx(i, addr(940_000 + vi as u64), &[], 0, gp));
            tdesc.push(format!("{i}:p(V{vi}){gpm}"));
        } else if roll < 80 {
            if matches!(abs[vi], Abs::Sd | Abs::Counter(0x36)) {
                feats.insert("reverted_inner_selfdestruct");
            }
            txs.push(call_tx(i, addr(950_000 + vi as u64), &[], 0, gp));
            tdesc.push(format!("{i}:pr(V{vi}){gpm}"));
        } else if roll < 87 {
            note_call(true, 0, &mut abs, &mut feats);
            txs.push(call_tx(i, addr(960_000 + vi as u64), &[], 0, gp));
            tdesc.push(format!("{i}:po(V{vi}){gpm}"));
        } else if roll < 100 {
            // factory of some victim that has one, else a fresh deployment
            if let Some(fv) = (0..nv).map(|o| (vi + o) % nv).find(|&o| recreate[o] == Recreate::Factory) {
                feats.insert("create");
                if destroyed_before[fv] {
                    feats.insert("recreate_same_address");
                }
                if matches!(abs[fv], Abs::Absent | Abs::Empty) {
                    abs[fv] = Abs::Counter(0x36);
                    recreated[fv] = destroyed_before[fv];
                }
                // enough gas that 1/64 survives a CREATE2 collision and still pays the SSTORE
                let mut tx = call_tx(i, addr(920_000 + fv as u64), &[], 0, gp);
                tx.gas_limit = 3_000_000;
                txs.push(tx);
                tdesc.push(format!("{i}:f(V{fv}){gpm}"));
            } else {
                feats.insert("create");
                let init = ctor_init(&[(0, 9), (2, 1)], &counter(receiver(), 0x36));
                txs.push(create_tx(i, init, gp));
                tdesc.push(format!("{i}:new{gpm}"));
            }
        } else if roll < 106 {
            // CREATE tx whose initcode selfdestructs: create + destroy in one transaction
            feats.insert("create");
            feats.insert("create_destroy_one_tx");
            feats.insert("destroy");
            let (heir, hn) =
                if rng.chance(1, 2) { (receiver(), "R".to_owned()) } else { (a, format!("V{vi}")) };
            if heir == a && matches!(abs[vi], Abs::Absent) {
                abs[vi] = Abs::Empty;
            }
            txs.push(create_tx(i, selfdestruct_to(heir), gp));
            tdesc.push(format!("{i}:csd(>{hn}){gpm}"));
        } else if roll < 112 && has_create2 {
            feats.insert("create");
            feats.insert("create_destroy_one_tx");
            feats.insert("destroy");
            let mut tx = call_tx(i, kill_factory, &[], 0, gp);
            tx.gas_limit = 3_000_000;
            txs.push(tx);
            tdesc.push(format!("{i}:fk{gpm}"));
        } else if has_create2 {
            txs.push(call_tx(i, addr(945_000), &[], 0, gp));
            tdesc.push(format!("{i}:pk{gpm}"));
        } else {
            note_call(false, 0, &mut abs, &mut feats);
            txs.push(call_tx(i, a, &[], 0, gp));
            tdesc.push(format!("{i}:c(V{vi}){gpm}"));
        }
    }

    let mut hot: BTreeSet<Address> = vaddr.iter().cloned().collect();
    hot.insert(kaddr);
    hot.insert(fresh());
    hot.insert(beneficiary);
    let ben = match vaddr.iter().position(|a| *a == beneficiary) {
        Some(vi) => format!("V{vi}"),
        None => "M".to_owned(),
    };
    let desc = format!("ben={ben} {} | {}", vdesc.join(" "), tdesc.join(" "));
    Case { spec, workers, disable_nonce_check: true, beneficiary, db, txs, hot, desc, feats }
}

// ---- kind = code (C09) -------------------------------------------------------------------------

fn authority(i: usize) -> Address {
    addr(900_000 + i as u64)
}
fn target_x() -> Address {
    addr(910_000)
}
fn target_y() -> Address {
    addr(910_001)
}
fn target_z() -> Address {
    addr(910_002)
}

struct AuthState {
    nonce: u64,
    current: Option<Address>,
    history: Vec<Address>,
}

fn gen_code(rng: &mut Rng) -> Case {
    let spec = if rng.chance(13, 20) {
        if rng.chance(1, 2) { SpecId::PRAGUE } else { SpecId::OSAKA }
    } else {
        *rng.pick(&ALL_SPECS)
    };
    let with_7702 = spec.is_enabled_in(SpecId::PRAGUE);
    let n = rng.range(4, 16) as usize;
    let workers = rng.range(2, 8) as usize;
    let mut feats: BTreeSet<&'static str> = BTreeSet::new();
    let mut db = MemDb::default();
    fund_senders(&mut db, n);
    db.put_code(target_x(), &sstore_code(1), 0, &[]);
    db.put_code(target_y(), &sstore_code(2), 0, &[]);
    db.put_code(target_z(), &incr_code(), 0, &[]);

    // authorities
    let mut st: Vec<AuthState> = Vec::new();
    let mut adesc = Vec::new();
    let names = ["A", "B"];
    for (ai, name) in names.iter().enumerate() {
        let a = authority(ai);
        let roll = rng.below(100);
        if with_7702 && roll < 20 {
            feats.insert("pre_delegated_base");
            feats.insert("authority_with_storage");
            db.put_bytecode(a, Bytecode::new_eip7702(target_x()), ONE_ETHER, 5, &[(0, 42)]);
            st.push(AuthState { nonce: 5, current: Some(target_x()), history: vec![target_x()] });
            adesc.push(format!("{name}=pre(X)#5"));
        } else if roll < 50 {
            // An EOA that was delegated in an earlier block, wrote storage and cleared again:
            // nonce > 0, no code, storage. (With nonce 0 the fixture would be a state that cannot
            // exist for a key-controlled account; stock revm then treats the account as "fully in
            // memory" after its first change and answers 0 for its storage without asking the DB,
            // so the oracle itself would disagree with the base DB. `FLATBLOCK_NONCE0_STORAGE=1`
            // re-enables that fixture for experiments.)
            let n0 = if std::env::var_os("FLATBLOCK_NONCE0_STORAGE").is_some() { 0 } else { 3 };
            feats.insert("authority_with_storage");
            db.put_eoa(a, ONE_ETHER, n0, &[(0, 42), (7, 3)]);
            st.push(AuthState { nonce: n0, current: None, history: vec![] });
            adesc.push(format!("{name}=stor#{n0}"));
        } else {
            db.put_eoa(a, ONE_ETHER, 0, &[]);
            st.push(AuthState { nonce: 0, current: None, history: vec![] });
            adesc.push(format!("{name}=plain"));
        }
        db.put_code(addr(940_000 + ai as u64), &probe_code(a, spec, true), 0, &[]);
    }

    // in-block deployments: positions fixed up front so that delegations can point at them
    let ndeploy = if with_7702 { rng.below(3) as usize } else { rng.range(1, 2) as usize };
    let mut deploy_at: Vec<usize> = Vec::new();
    while deploy_at.len() < ndeploy {
        let k = rng.below(n as u64) as usize;
        if !deploy_at.contains(&k) {
            deploy_at.push(k);
        }
    }
    let mut deploy_info: Vec<(usize, Address, Vec<u8>, &'static str)> = Vec::new();
    for &k in &deploy_at {
        let d = eoa(k).create(1);
        let (rt, rname) = match rng.below(3) {
            0 => (sstore_code(3), "s3"),
            1 => (incr_code(), "inc"),
            _ => (counter(receiver(), 0x36), "ctr"),
        };
        db.put_code(addr(941_000 + k as u64), &probe_code(d, spec, true), 0, &[]);
        deploy_info.push((k, d, ctor_init(&[(5, 9)], &rt), rname));
    }

    let tname = |t: Address| -> String {
        if t == target_x() {
            "X".into()
        } else if t == target_y() {
            "Y".into()
        } else if t == target_z() {
            "Z".into()
        } else if t == Address::ZERO {
            "0".into()
        } else if let Some((k, ..)) = deploy_info.iter().find(|d| d.1 == t) {
            format!("D{k}")
        } else {
            format!("{t}")
        }
    };

    // builds 1..3 authorisation tuples, updating the tracked authority state
    let build_auths = |rng: &mut Rng,
                           st: &mut Vec<AuthState>,
                           feats: &mut BTreeSet<&'static str>,
                           self_sponsor: Option<usize>|
     -> (Vec<Either<revm_context::transaction::SignedAuthorization, RecoveredAuthorization>>, String) {
        let cnt = match rng.below(10) {
            0..=4 => 1,
            5..=7 => 2,
            _ => 3,
        };
        let mut list = Vec::new();
        let mut d = Vec::new();
        let mut seen: Vec<usize> = Vec::new();
        for j in 0..cnt {
            let ai = match self_sponsor {
                Some(s) if j == 0 => s,
                _ => rng.below(2) as usize,
            };
            if seen.contains(&ai) {
                feats.insert("repeated_authority_one_tx");
            } else if !seen.is_empty() {
                feats.insert("multiple_authorities");
            }
            seen.push(ai);
            let s = &mut st[ai];
            // target choice
            let roll = rng.below(100);
            let target = if roll < 22 {
                target_x()
            } else if roll < 44 {
                target_y()
            } else if roll < 58 {
                target_z()
            } else if roll < 76 {
                Address::ZERO
            } else if roll < 90 && !s.history.is_empty() {
                // deliberately go back to an earlier target
                let cands: Vec<Address> =
                    s.history.iter().cloned().filter(|h| Some(*h) != s.current).collect();
                if cands.is_empty() { target_y() } else { *rng.pick(&cands) }
            } else if !deploy_info.is_empty() {
                deploy_info[rng.below(deploy_info.len() as u64) as usize].1
            } else {
                target_x()
            };
            let bad = rng.below(100);
            let (chain, nonce, valid, mark) = if bad < 8 {
                feats.insert("invalid_auth_wrong_nonce");
                (U256::ZERO, s.nonce + rng.range(2, 5), false, "!n")
            } else if bad < 15 {
                feats.insert("invalid_auth_wrong_chain");
                (U256::from(5), s.nonce, false, "!c")
            } else {
                (if rng.chance(1, 2) { U256::ZERO } else { U256::from(1) }, s.nonce, true, "")
            };
            d.push(format!("{}>{}#{}{}", names[ai], tname(target), nonce, mark));
            if valid {
                s.nonce += 1;
                if target == Address::ZERO {
                    if s.current.is_some() {
                        feats.insert("clear");
                    }
                    s.current = None;
                } else {
                    match s.current {
                        Some(c) if c != target => {
                            feats.insert("re_point");
                        }
                        _ => {}
                    }
                    if s.current != Some(target) && s.history.contains(&target) {
                        feats.insert("set_again_previous_target");
                    }
                    feats.insert("delegation_set");
                    if deploy_info.iter().any(|di| di.1 == target) {
                        feats.insert("delegate_to_in_block_created");
                    }
                    s.current = Some(target);
                    if !s.history.contains(&target) {
                        s.history.push(target);
                    }
                }
            }
            list.push(Either::Right(RecoveredAuthorization::new_unchecked(
                Authorization { chain_id: chain, address: target, nonce },
                RecoveredAuthority::Valid(authority(ai)),
            )));
        }
        (list, d.join(","))
    };

    let mut txs = Vec::new();
    let mut tdesc = Vec::new();
    for i in 0..n {
        let gp: u128 = if rng.chance(1, 5) { 0 } else { 1 };
        let gpm = if gp == 0 { "~" } else { "" };
        if let Some((_, _, init, rname)) = deploy_info.iter().find(|d| d.0 == i) {
            feats.insert("deploy");
            txs.push(create_tx(i, init.clone(), gp));
            tdesc.push(format!("{i}:deploy({rname}){gpm}"));
            continue;
        }
        let roll = if with_7702 { rng.below(100) } else { 80 + rng.below(20) };
        if roll < 30 {
            // sponsored type-4
            let (list, d) = build_auths(rng, &mut st, &mut feats, None);
            let (to, tn) = match rng.below(10) {
                0..=4 => (eoa(i), "self".to_owned()),
                5..=7 => {
                    let ai = rng.below(2) as usize;
                    if st[ai].current.is_some() {
                        feats.insert("call_delegated_account");
                    }
                    (authority(ai), names[ai].to_owned())
                }
                _ => {
                    let ai = rng.below(2) as usize;
                    feats.insert("extcode_probe");
                    (addr(940_000 + ai as u64), format!("P{}", names[ai]))
                }
            };
            txs.push(TxEnv {
                tx_type: 4,
                caller: eoa(i),
                kind: TxKind::Call(to),
                gas_limit: 400_000,
                gas_price: gp,
                nonce: 1,
                authorization_list: list,
                ..TxEnv::default()
            });
            tdesc.push(format!("{i}:auth[{d}]->{tn}{gpm}"));
        } else if roll < 38 {
            // self-sponsored type-4: sender nonce is bumped before the tuples are processed
            let ai = rng.below(2) as usize;
            feats.insert("self_sponsored");
            if st[ai].current.is_some() {
                feats.insert("tx_from_delegated_account");
            }
            let tx_nonce = st[ai].nonce;
            st[ai].nonce += 1;
            let (list, d) = build_auths(rng, &mut st, &mut feats, Some(ai));
            let (to, tn) = if rng.chance(1, 2) {
                (receiver(), "R".to_owned())
            } else {
                if st[ai].current.is_some() {
                    feats.insert("call_delegated_account");
                }
                (authority(ai), names[ai].to_owned())
            };
            txs.push(TxEnv {
                tx_type: 4,
                caller: authority(ai),
                kind: TxKind::Call(to),
                gas_limit: 400_000,
                gas_price: gp,
                nonce: tx_nonce,
                authorization_list: list,
                ..TxEnv::default()
            });
            tdesc.push(format!("{i}:self{}#{tx_nonce}[{d}]->{tn}{gpm}", names[ai]));
        } else if roll < 58 {
            let ai = rng.below(2) as usize;
            if st[ai].current.is_some() {
                feats.insert("call_delegated_account");
            }
            let value = if rng.chance(1, 4) { rng.range(1, 1000) } else { 0 };
            txs.push(call_tx(i, authority(ai), &[], value, gp));
            tdesc.push(format!("{i}:call({}{}){gpm}", names[ai], if value > 0 { "+v" } else { "" }));
        } else if roll < 72 {
            let ai = rng.below(2) as usize;
            feats.insert("extcode_probe");
            txs.push(call_tx(i, addr(940_000 + ai as u64), &[], 0, gp));
            tdesc.push(format!("{i}:probe({}){gpm}", names[ai]));
        } else if roll < 80 {
            // plain transaction SENT FROM an authority
            let ai = rng.below(2) as usize;
            if st[ai].current.is_some() {
                feats.insert("tx_from_delegated_account");
            }
            // sometimes with a stale / future sender nonce: the oracle skips it, so must grevm
            let bad_nonce = rng.chance(3, 20);
            let tx_nonce = if bad_nonce {
                feats.insert("invalid_sender_nonce");
                if st[ai].nonce > 0 && rng.chance(1, 2) { st[ai].nonce - 1 } else { st[ai].nonce + 2 }
            } else {
                st[ai].nonce += 1;
                st[ai].nonce - 1
            };
            let other = authority(1 - ai);
            let (to, tn) = if rng.chance(2, 3) {
                (receiver(), "R".to_owned())
            } else {
                if st[1 - ai].current.is_some() {
                    feats.insert("call_delegated_account");
                }
                (other, names[1 - ai].to_owned())
            };
            txs.push(TxEnv {
                caller: authority(ai),
                kind: TxKind::Call(to),
                value: U256::from(rng.range(1, 1000)),
                gas_limit: CALL_GAS,
                gas_price: gp,
                nonce: tx_nonce,
                ..TxEnv::default()
            });
            tdesc.push(format!(
                "{i}:from({}#{tx_nonce}{})->{tn}{gpm}",
                names[ai],
                if bad_nonce { "!n" } else { "" }
            ));
        } else if !deploy_info.is_empty() {
            let (k, d, ..) = deploy_info[rng.below(deploy_info.len() as u64) as usize].clone();
            if roll < 90 {
                let data: &[u8] = if rng.chance(1, 4) { &[0x01] } else { &[] };
                txs.push(call_tx(i, d, data, 0, gp));
                tdesc.push(format!("{i}:call(D{k}{}){gpm}", if data.is_empty() { "" } else { ",d" }));
            } else {
                feats.insert("extcode_probe");
                txs.push(call_tx(i, addr(941_000 + k as u64), &[], 0, gp));
                tdesc.push(format!("{i}:probe(D{k}){gpm}"));
            }
        } else {
            let ai = rng.below(2) as usize;
            feats.insert("extcode_probe");
            txs.push(call_tx(i, addr(940_000 + ai as u64), &[], 0, gp));
            tdesc.push(format!("{i}:probe({}){gpm}", names[ai]));
        }
    }

    let mut hot: BTreeSet<Address> = BTreeSet::new();
    hot.insert(authority(0));
    hot.insert(authority(1));
    hot.insert(target_x());
    hot.insert(target_y());
    hot.insert(target_z());
    for d in &deploy_info {
        hot.insert(d.1);
    }
    // the fee recipient is sometimes an account whose code changes in this block (an authority or
    // a deployment target): the ordered commit folds later deferred rewards into that account
    // (chosen last, so the rest of the case does not depend on it)
    let beneficiary = if rng.chance(1, 4) {
        feats.insert("beneficiary_code_changes");
        let mut cands = vec![authority(0), authority(1)];
        cands.extend(deploy_info.iter().map(|d| d.1));
        *rng.pick(&cands)
    } else {
        miner()
    };
    let desc = format!("{} | {} | ben={:x}", adesc.join(" "), tdesc.join(" "), beneficiary);
    Case {
        spec,
        workers,
        disable_nonce_check: false,
        beneficiary,
        db,
        txs,
        hot,
        desc,
        feats,
    }
}

// ------------------------------------------------------------------------------------------------
// Driver
// ------------------------------------------------------------------------------------------------

#[derive(Default)]
struct Stats {
    cases: u64,
    mismatches: u64,
    specs: BTreeMap<String, u64>,
    feats: BTreeMap<&'static str, u64>,
    statuses: BTreeMap<&'static str, u64>,
    tx_success: u64,
    tx_revert: u64,
    tx_halt: u64,
    tx_skipped: u64,
    txs: u64,
    grevm_runs: u64,
    /// number of cases whose MISMATCH text contains a difference of this `[class]`
    classes: BTreeMap<String, u64>,
    /// per run kind: cases where that run differed
    by_run: BTreeMap<&'static str, u64>,
    /// runs that did not finish within the deadline (also counted in `mismatches`)
    hangs: u64,
    /// cases (verdict OK) whose only difference is the known `bundle.contracts` KECCAK_EMPTY entry
    known_empty_code: u64,
}

fn status_name(s: AccountStatus) -> Option<&'static str> {
    match s {
        AccountStatus::Destroyed => Some("Destroyed"),
        AccountStatus::DestroyedChanged => Some("DestroyedChanged"),
        AccountStatus::DestroyedAgain => Some("DestroyedAgain"),
        AccountStatus::InMemoryChange => Some("InMemoryChange"),
        AccountStatus::Changed => Some("Changed"),
        _ => None,
    }
}

fn json_map<K: fmt::Display>(m: &BTreeMap<K, u64>) -> String {
    let items: Vec<String> = m.iter().map(|(k, v)| format!("\"{k}\":{v}")).collect();
    format!("{{{}}}", items.join(","))
}

/// Debug aid (`FLATBLOCK_DUMP=1`, meant for `only_index` replays): full outcomes and bundle on stderr.
fn dump_run(label: &str, run: &RunOutput) {
    eprintln!("==== {label}: outcomes");
    for (i, o) in run.0.iter().enumerate() {
        eprintln!("  tx {i}: {o:?}");
    }
    eprintln!("==== {label}: bundle.state");
    let st: BTreeMap<&Address, &BundleAccount> = run.1.state.iter().collect();
    for (a, acc) in st {
        let storage: BTreeMap<&U256, &StorageSlot> = acc.storage.iter().collect();
        eprintln!(
            "  {a} status={:?} info={:?} original={:?} storage={:?}",
            acc.status,
            acc.info.as_ref().map(|i| (i.balance, i.nonce, i.code_hash)),
            acc.original_info.as_ref().map(|i| (i.balance, i.nonce, i.code_hash)),
            storage
        );
    }
    eprintln!("==== {label}: contracts {:?}", run.1.contracts.keys().collect::<BTreeSet<_>>());
    eprintln!("==== {label}: reverts {:?}", run.1.reverts);
}

fn cmp_and_dump(oracle: &RunOutput, out: &RunOutput, label: &str) -> Result<bool, String> {
    let r = cmp_run(oracle, out);
    if !matches!(r, Ok(false)) && std::env::var_os("FLATBLOCK_DUMP").is_some() {
        dump_run(label, out);
    }
    r
}

/// Runs one case; returns the text after `=> `.
fn run_case(case: &Case, delay_seeds: [u64; 2], stats: &mut Stats) -> String {
    let mut cfg = CfgEnv::new_with_spec(case.spec);
    cfg.disable_nonce_check = case.disable_nonce_check;
    let env = BlockEnv { beneficiary: case.beneficiary, ..BlockEnv::default() };
    let mem = Arc::new(case.db.clone());
    let hot = Arc::new(case.hot.clone());
    let txs = Arc::new(case.txs.clone());

    let oracle = match run_oracle(DelayDb::new(mem.clone(), hot.clone(), 0), cfg.clone(), env.clone(), &txs)
    {
        Ok(o) => o,
        Err(e) => return format!("ORACLE_ERROR {e}"),
    };
    if std::env::var_os("FLATBLOCK_DUMP").is_some() {
        dump_run("oracle", &oracle);
    }
    for o in &oracle.0 {
        match o {
            TxExecutionOutcome::Executed(ExecutionResult::Success { .. }) => stats.tx_success += 1,
            TxExecutionOutcome::Executed(ExecutionResult::Revert { .. }) => stats.tx_revert += 1,
            TxExecutionOutcome::Executed(ExecutionResult::Halt { .. }) => stats.tx_halt += 1,
            TxExecutionOutcome::Skipped(_) => stats.tx_skipped += 1,
        }
    }
    stats.txs += oracle.0.len() as u64;
    let mut seen: BTreeSet<&'static str> = BTreeSet::new();
    for acc in oracle.1.state.values() {
        if let Some(nm) = status_name(acc.status) {
            seen.insert(nm);
        }
    }
    for nm in seen {
        *stats.statuses.entry(nm).or_default() += 1;
    }

    let gcfg = |force_sequential: bool| GrevmConfig {
        concurrency_level: case.workers,
        force_sequential,
        min_parallel_txs: 0,
        delegated_safety: DelegatedSafetyConfig::disabled(),
    };
    let mut problems: Vec<String> = Vec::new();
    let mut known: Vec<String> = Vec::new();
    let mut hung = false;
    // (label, delay seed, force_sequential)
    let runs = [
        ("parallel run0".to_owned(), delay_seeds[0] | 1, false),
        ("parallel run1".to_owned(), delay_seeds[1] | 1, false),
        ("forced_sequential".to_owned(), 0, true),
    ];
    for (label, seed, force) in runs {
        stats.grevm_runs += 1;
        let db = DelayDb::new(mem.clone(), hot.clone(), seed);
        let res = run_grevm(db, cfg.clone(), env.clone(), txs.clone(), gcfg(force))
            .and_then(|out| cmp_and_dump(&oracle, &out, &label));
        let tag = if force { label.clone() } else { format!("{label} delay_seed={seed}") };
        match res {
            Ok(false) => {}
            Ok(true) => {
                // since the repair of incarnation_db.rs:171 (code-less accounts keep their `code`
                // field in the Basic entry) this is a regression: `BundleState::contracts` must be
                // identical to revm's. Counted separately, reported as a MISMATCH.
                known.push(label.clone());
                problems.push(format!(
                    "{tag} [contracts_keys] contracts_empty_code_only_in_oracle: bundle.contracts keys: only-oracle [KECCAK_EMPTY -> empty bytecode] only-grevm []"
                ));
            }
            Err(e) => {
                hung = e.starts_with("[hang]");
                problems.push(format!("{tag} {e}"));
                if hung {
                    // stuck scheduler threads keep spinning: no further run is meaningful
                    break;
                }
            }
        }
    }
    if hung {
        stats.hangs += 1;
    }
    if !known.is_empty() {
        stats.known_empty_code += 1;
    }
    if !problems.is_empty() {
        format!("MISMATCH {}", problems.join(" || "))
    } else {
        "OK".to_owned()
    }
}

fn real_main() -> Result<(), String> {
    let args: Vec<String> = std::env::args().collect();
    if args.len() < 5 || args.len() > 6 {
        return Err("usage: flatblock <destroy|code> <seed> <count> <outdir> [only_index]".into());
    }
    let kind = args[1].as_str();
    if kind != "destroy" && kind != "code" {
        return Err(format!("unknown kind {kind:?} (destroy|code)"));
    }
    let seed: u64 = args[2].parse().map_err(|e| format!("seed: {e}"))?;
    let count: u64 = args[3].parse().map_err(|e| format!("count: {e}"))?;
    let outdir = std::path::PathBuf::from(&args[4]);
    let only: Option<u64> = match args.get(5) {
        Some(s) => Some(s.parse().map_err(|e| format!("only_index: {e}"))?),
        None => None,
    };
    std::fs::create_dir_all(&outdir).map_err(|e| format!("mkdir {outdir:?}: {e}"))?;
    let path = match only {
        Some(i) => outdir.join(format!("block-{kind}-{i}.cases")),
        None => outdir.join(format!("block-{kind}.cases")),
    };
    let mut out = std::io::BufWriter::new(
        std::fs::File::create(&path).map_err(|e| format!("create {path:?}: {e}"))?,
    );

    // grevm panics are caught per run; keep stderr to one line per panic
    std::panic::set_hook(Box::new(|info| {
        let loc = info.location().map(|l| format!("{}:{}", l.file(), l.line())).unwrap_or_default();
        eprintln!("[flatblock] caught panic at {loc}");
    }));

    let started = Instant::now();
    let mut stats = Stats::default();
    let feat_names: &[&'static str] = if kind == "destroy" { &DESTROY_FEATS } else { &CODE_FEATS };
    for f in feat_names {
        stats.feats.insert(f, 0);
    }
    for s in ["Destroyed", "DestroyedChanged", "DestroyedAgain", "InMemoryChange", "Changed"] {
        stats.statuses.insert(s, 0);
    }
    let mut master = Rng::new(seed);
    for index in 0..count {
        let mut rng = master.fork();
        if only.is_some_and(|o| o != index) {
            continue;
        }
        let case = if kind == "destroy" { gen_destroy(&mut rng) } else { gen_code(&mut rng) };
        let delay_seeds = [rng.next(), rng.next()];
        // Minimisation aid for replays: FLATBLOCK_KEEP=0,3,5 keeps only these tx indices (each tx
        // keeps its own sender, base DB unchanged).
        let mut case = case;
        if let Some(keep) = std::env::var("FLATBLOCK_KEEP").ok().filter(|_| only.is_some()) {
            let keep: BTreeSet<usize> = keep.split(',').filter_map(|t| t.trim().parse().ok()).collect();
            let mut i = 0;
            case.txs.retain(|_| {
                i += 1;
                keep.contains(&(i - 1))
            });
            case.desc = format!("{} [kept txs {:?}]", case.desc, keep);
        }
        stats.cases += 1;
        *stats.specs.entry(format!("{:?}", case.spec)).or_default() += 1;
        for f in &case.feats {
            *stats.feats.entry(f).or_default() += 1;
        }
        let verdict = run_case(&case, delay_seeds, &mut stats);
        if !verdict.starts_with("OK") {
            stats.mismatches += 1;
            let mut classes: BTreeSet<String> = BTreeSet::new();
            for part in verdict.split('[').skip(1) {
                if let Some((c, _)) = part.split_once(']') {
                    if !c.is_empty() && c.chars().all(|ch| ch.is_ascii_lowercase() || ch == '_') {
                        classes.insert(c.to_owned());
                    }
                }
            }
            if verdict.starts_with("ORACLE_ERROR") {
                classes.insert("oracle_error".to_owned());
            }
            for c in classes {
                *stats.classes.entry(c).or_default() += 1;
            }
            for run in ["parallel", "forced_sequential"] {
                if verdict.split(" || ").any(|p| p.trim_start_matches("MISMATCH ").starts_with(run)) {
                    *stats.by_run.entry(run).or_default() += 1;
                }
            }
        }
        let line = format!(
            "{index} {:?} {} {} {} => {verdict}",
            case.spec,
            case.workers,
            case.txs.len(),
            case.desc
        );
        writeln!(out, "{line}").map_err(|e| format!("write {path:?}: {e}"))?;
        out.flush().map_err(|e| format!("flush {path:?}: {e}"))?;
        if only.is_some() {
            eprintln!("{line}");
        }
        if stats.hangs > 0 {
            // summary for the cases done so far; the process is terminated below
            break;
        }
    }
    let wall = started.elapsed().as_secs_f64();
    println!(
        "{{\"kind\":\"{kind}\",\"seed\":{seed},\"cases\":{},\"mismatches\":{},\"mismatch_classes\":{},\"mismatch_runs\":{},\"hangs\":{},\"contracts_empty_code_only_in_oracle\":{},\"specs\":{},\"features\":{},\"status_bundles\":{},\"txs\":{{\"total\":{},\"success\":{},\"revert\":{},\"halt\":{},\"skipped_invalid\":{}}},\"grevm_runs\":{},\"cases_file\":\"{}\",\"wall_seconds\":{:.3}}}",
        stats.cases,
        stats.mismatches,
        json_map(&stats.classes),
        json_map(&stats.by_run),
        stats.hangs,
        stats.known_empty_code,
        json_map(&stats.specs),
        json_map(&stats.feats),
        json_map(&stats.statuses),
        stats.txs,
        stats.tx_success,
        stats.tx_revert,
        stats.tx_halt,
        stats.tx_skipped,
        stats.grevm_runs,
        path.display(),
        wall
    );
    if stats.hangs > 0 {
        // the stuck scheduler threads cannot be joined
        out.flush().ok();
        std::io::stdout().flush().ok();
        std::process::exit(0);
    }
    Ok(())
}

fn main() {
    if let Err(e) = real_main() {
        eprintln!("flatblock: {e}");
        std::process::exit(2);
    }
}
