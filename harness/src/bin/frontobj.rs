//! C15 correspondence (frontier): 2-4 threads run publish(i) / current() on the real
//! ExecutionFrontier (2-6 transactions, every index published at most once, in a random order and
//! by random threads) under the deterministic driver. One trace per case; the harness notes what
//! each current() call returned and how many indices had been published before the call started.
//! usage: frontobj <seed> <count> <outfile>
use grevm::verif::objects::FrontierV;
use std::{
    fmt::Write as _,
    sync::{
        Arc,
        atomic::{AtomicBool, Ordering},
    },
};
use verif_harness::{
    driver::{Driver, Pct, RandomWalk, Strategy, trace_lines},
    rng::Rng,
};

fn main() {
    let a: Vec<String> = std::env::args().collect();
    let (seed, count, out) = (a[1].parse::<u64>().unwrap(), a[2].parse::<u64>().unwrap(), &a[3]);
    let mut rng = Rng::new(seed);
    let mut text = String::new();
    for case in 0..count {
        let mut crng = rng.fork();
        let n = crng.range(2, 6) as usize;
        let threads = crng.range(2, 4) as usize;
        let strat: Box<dyn Strategy> = if crng.chance(1, 3) { Box::new(Pct::new(crng.fork(), 3, 80)) } else { Box::new(RandomWalk { rng: crng.fork(), stay: crng.range(0, 80) }) };
        let driver = Driver::new(threads, strat, 20000);
        let fr = Arc::new(FrontierV::new(n));
        // a random subset of the indices, in a random order, dealt to the threads
        let mut order: Vec<usize> = (0..n).collect();
        for i in (1..n).rev() {
            let j = crng.below(i as u64 + 1) as usize;
            order.swap(i, j);
        }
        let published = if crng.chance(1, 2) { n } else { crng.range(1, n as u64) as usize };
        let mut work: Vec<Vec<usize>> = vec![Vec::new(); threads];
        for &i in &order[..published] {
            work[crng.below(threads as u64) as usize].push(i);
        }
        // done[i]: publish(i) has returned (what "completed an execution" means to a reader)
        let done: Arc<Vec<AtomicBool>> = Arc::new((0..n).map(|_| AtomicBool::new(false)).collect());
        driver.install();
        std::thread::scope(|sc| {
            for w in work.iter() {
                let f = fr.clone();
                let done = done.clone();
                let mut r = crng.fork();
                let w = w.clone();
                sc.spawn(move || {
                    let _t = grevm::verif::thread_begin("worker");
                    let lowest_done = |done: &Vec<AtomicBool>| done.iter().position(|d| !d.load(Ordering::SeqCst)).unwrap_or(done.len());
                    for i in w {
                        if r.chance(1, 2) {
                            grevm::verif::p0("fr_delay");
                            let lo = lowest_done(&done);
                            grevm::verif::n2("fr_call_current", lo as i64, 0);
                            let v = f.current();
                            grevm::verif::n2("fr_result", v as i64, lo as i64);
                        }
                        grevm::verif::p1("fr_call_publish", i as i64);
                        f.publish(i);
                        done[i].store(true, Ordering::SeqCst);
                        grevm::verif::n2("fr_published", i as i64, 0);
                    }
                    for _ in 0..r.below(3) {
                        grevm::verif::p0("fr_delay");
                        let lo = lowest_done(&done);
                        grevm::verif::n2("fr_call_current", lo as i64, 0);
                        let v = f.current();
                        grevm::verif::n2("fr_result", v as i64, lo as i64);
                    }
                });
            }
        });
        Driver::uninstall();
        let rep = driver.report();
        let flags: Vec<u8> = (0..n).map(|i| fr.flag(i) as u8).collect();
        let want = (0..n).position(|i| !order[..published].contains(&i)).unwrap_or(n);
        writeln!(text, "# case {case} n={n} threads={threads} published={:?} failure={:?} final_frontier={} first_unpublished={want} flags={flags:?}", &order[..published], rep.failure, fr.raw_frontier()).unwrap();
        text.push_str(&trace_lines(&rep.trace));
        text.push_str("--\n");
    }
    std::fs::write(out, text).unwrap();
}
