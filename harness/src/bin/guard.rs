//! C12 correspondence driver: the delegated-CREATE guard on real revm.
//!
//! usage: guard <seed> <n_unit> <n_prog> <outdir> [only_prog_case]
//!
//! Writes <outdir>/guard.in (one case per line = the extracted model's input), guard.impl (what the
//! real code did, same line format as the model driver prints), guard.direct (JSON lines: failures
//! of model-independent predicates, each with the complete failing block) and guard.stats (JSON).
//!
//! Streams (all derived from <seed>):
//!  gas/op  every spec: static gas table of `gravity_instructions(spec)` vs revm's; every opcode
//!          stepped once with the stock and with the guarded table on a scripted host, frame
//!          account plain / delegated.
//!  dec     unit level: the real `guarded_create` (through the real table and `Interpreter::step`)
//!          on a scripted `Host` - static?, CREATE2?, spec, what the frame's own account loads as
//!          (plain, designator with warm/cold delegate, load failure, failing delegate), caller
//!          scripted independently, random stack / gas; compared in full with the stock
//!          instruction on an identical interpreter.
//!  prog    program level: generated blocks (contracts, EIP-7702 delegated EOAs pre-set in the
//!          database or set by authorization lists, CREATE/CREATE2 reached directly, nested, via
//!          DELEGATECALL / STATICCALL / CALLCODE, from create transactions and from init code)
//!          through the public grevm `Scheduler` API (sequential and parallel) versus stock revm;
//!          a stock-revm inspector that halts delegated-context creates is the reference for the
//!          blocks in which one executes; a second stock-revm run carrying the real guarded table
//!          and a tracing inspector yields the per-CREATE events compared with the model.
use grevm::{DelegatedSafetyConfig, TxExecutionOutcome};
use revm::{
    Inspector,
    bytecode::Bytecode,
    context::{BlockEnv, CfgEnv, ContextTr, JournalTr, TxEnv},
    context_interface::{
        context::{SStoreResult, SelfDestructResult, StateLoad},
        either::Either,
        host::LoadError,
        journaled_state::AccountInfoLoad,
        transaction::{Authorization, RecoveredAuthority, RecoveredAuthorization},
    },
    handler::instructions::EthInstructions,
    interpreter::{
        CallInputs, CallOutcome, CreateInputs, CreateOutcome, Host, InstructionResult, Interpreter, InterpreterAction,
        SharedMemory,
        interpreter::{EthInterpreter, ExtBytecode},
        interpreter_types::{InputsTr, Jumps, LoopControl, ReturnData, RuntimeFlag},
        InputsImpl,
    },
    primitives::{Address, B256, Log, StorageKey, StorageValue, TxKind, U256, hardfork::SpecId},
    state::AccountInfo,
};
use std::{
    collections::{BTreeMap, HashMap, HashSet},
    fmt::Write as _,
    fs,
    sync::Arc,
};
use verif_harness::{
    guard_common::{self as gc, BlockResult, MemDb},
    rng::Rng,
};

const CREATE: u8 = 0xf0;
const CREATE2: u8 = 0xf5;
const N_SPECS: u8 = 15; // FRONTIER(0) ..= AMSTERDAM(14)

fn spec_of(n: u8) -> SpecId {
    SpecId::try_from_u8(n).expect("spec")
}

fn is_designator(code: &Bytecode) -> bool {
    // independent of revm's parser: EIP-7702 designator = 0xef0100 || 20-byte address
    let b = code.original_bytes();
    b.len() == 23 && b[0] == 0xef && b[1] == 0x01 && b[2] == 0x00
}

// =================================================================================================
// scripted host (unit level)

#[derive(Clone, Debug)]
enum Script {
    Fail,
    Acct { info: AccountInfo, cold: bool, empty: bool },
}

#[derive(Clone)]
struct ScriptHost {
    gas_params: revm::context_interface::cfg::GasParams,
    accounts: HashMap<Address, Script>,
    fallback: AccountInfo,
    calls: Vec<(Address, bool, bool)>,
}

impl ScriptHost {
    fn new(spec: SpecId) -> Self {
        Self {
            gas_params: revm::context_interface::cfg::GasParams::new_spec(spec),
            accounts: HashMap::new(),
            fallback: AccountInfo::default(),
            calls: Vec::new(),
        }
    }
}

impl Host for ScriptHost {
    fn basefee(&self) -> U256 { U256::from(7) }
    fn blob_gasprice(&self) -> U256 { U256::from(1) }
    fn gas_limit(&self) -> U256 { U256::from(30_000_000u64) }
    fn gas_params(&self) -> &revm::context_interface::cfg::GasParams { &self.gas_params }
    fn is_amsterdam_eip8037_enabled(&self) -> bool { false }
    fn difficulty(&self) -> U256 { U256::from(2) }
    fn prevrandao(&self) -> Option<U256> { Some(U256::from(3)) }
    fn block_number(&self) -> U256 { U256::from(100) }
    fn timestamp(&self) -> U256 { U256::from(1000) }
    fn beneficiary(&self) -> Address { Address::with_last_byte(0xbe) }
    fn slot_num(&self) -> U256 { U256::ZERO }
    fn chain_id(&self) -> U256 { U256::from(1) }
    fn effective_gas_price(&self) -> U256 { U256::from(9) }
    fn caller(&self) -> Address { Address::with_last_byte(0xca) }
    fn blob_hash(&self, _n: usize) -> Option<U256> { None }
    fn max_initcode_size(&self) -> usize { 49152 }
    fn block_hash(&mut self, n: u64) -> Option<B256> { Some(B256::with_last_byte(n as u8)) }
    fn selfdestruct(&mut self, _a: Address, _t: Address, _s: bool) -> Result<StateLoad<SelfDestructResult>, LoadError> {
        Ok(Default::default())
    }
    fn log(&mut self, _log: Log) {}
    fn tstore(&mut self, _a: Address, _k: StorageKey, _v: StorageValue) {}
    fn tload(&mut self, _a: Address, _k: StorageKey) -> StorageValue { StorageValue::ZERO }
    fn load_account_info_skip_cold_load(&mut self, address: Address, load_code: bool, skip_cold_load: bool) -> Result<AccountInfoLoad<'_>, LoadError> {
        self.calls.push((address, load_code, skip_cold_load));
        match self.accounts.get(&address) {
            Some(Script::Fail) => Err(LoadError::DBError),
            Some(Script::Acct { info, cold, empty }) => Ok(AccountInfoLoad::new(info, *cold, *empty)),
            None => Ok(AccountInfoLoad::new(&self.fallback, false, true)),
        }
    }
    fn sstore_skip_cold_load(&mut self, _a: Address, _k: StorageKey, _v: StorageValue, _s: bool) -> Result<StateLoad<SStoreResult>, LoadError> {
        Ok(Default::default())
    }
    fn sload_skip_cold_load(&mut self, _a: Address, _k: StorageKey, _s: bool) -> Result<StateLoad<StorageValue>, LoadError> {
        Ok(Default::default())
    }
}

const U_TARGET: Address = Address::new([0x11; 20]);
const U_CALLER: Address = Address::new([0x22; 20]);
const U_DELEGATE: Address = Address::new([0x33; 20]);
const U_DELEGATE2: Address = Address::new([0x44; 20]);

fn plain_info(code: Option<Vec<u8>>, nonce: u64) -> AccountInfo {
    match code {
        None => AccountInfo { nonce, balance: U256::from(5), ..Default::default() },
        Some(c) => {
            let bc = Bytecode::new_legacy(c.into());
            AccountInfo { nonce, balance: U256::from(5), code_hash: bc.hash_slow(), code: Some(bc), ..Default::default() }
        }
    }
}

fn designator_info(to: Address) -> AccountInfo {
    let bc = Bytecode::new_eip7702(to);
    AccountInfo { nonce: 1, balance: U256::from(5), code_hash: bc.hash_slow(), code: Some(bc), ..Default::default() }
}

/// kind: 0 load fails, 1 plain (no code field), 2 plain with ordinary code, 3 plain empty account,
/// 4 designator + warm delegate, 5 designator + cold delegate, 6 designator + failing delegate,
/// 7 code that merely starts with 0xef (not a designator)
fn script_account(host: &mut ScriptHost, who: Address, delegate: Address, kind: u64) {
    match kind {
        0 => {
            host.accounts.insert(who, Script::Fail);
        }
        1 => {
            host.accounts.insert(who, Script::Acct { info: plain_info(None, 3), cold: false, empty: false });
        }
        2 => {
            host.accounts.insert(who, Script::Acct { info: plain_info(Some(vec![0x60, 0x00, 0x50, 0x00]), 1), cold: false, empty: false });
        }
        3 => {
            host.accounts.insert(who, Script::Acct { info: AccountInfo::default(), cold: true, empty: true });
        }
        4 | 5 | 6 => {
            host.accounts.insert(who, Script::Acct { info: designator_info(delegate), cold: false, empty: false });
            let d = match kind {
                4 => Script::Acct { info: plain_info(Some(vec![0x00]), 1), cold: false, empty: false },
                5 => Script::Acct { info: plain_info(Some(vec![0x00]), 1), cold: true, empty: false },
                _ => Script::Fail,
            };
            host.accounts.insert(delegate, d);
        }
        _ => {
            let mut c = vec![0xef, 0x01, 0x00];
            c.extend_from_slice(&[0u8; 10]); // 13 bytes: wrong length for a designator
            host.accounts.insert(who, Script::Acct { info: plain_info(Some(c), 1), cold: false, empty: false });
        }
    }
}

fn mk_interp(op: u8, spec: SpecId, is_static: bool, gas: u64, stack: &[U256]) -> Interpreter<EthInterpreter> {
    let input = InputsImpl {
        target_address: U_TARGET,
        bytecode_address: Some(U_DELEGATE),
        caller_address: U_CALLER,
        input: Default::default(),
        call_value: U256::ZERO,
    };
    let code = Bytecode::new_raw(vec![op, 0x00].into());
    let mut i = Interpreter::new(SharedMemory::new(), ExtBytecode::new(code), input, is_static, spec, gas);
    for v in stack {
        assert!(i.stack.push(*v));
    }
    i
}

/// Everything observable after one `Interpreter::step`.
fn step_obs(
    table: &EthInstructions<EthInterpreter, ScriptHost>,
    mut interp: Interpreter<EthInterpreter>,
    host: &mut ScriptHost,
) -> (Result<(), InstructionResult>, String) {
    let r = interp.step(table.instruction_table(), table.gas_table(), host);
    let mut s = String::new();
    write!(
        s,
        "r={:?} gas_rem={} gas_spent={} refund={} stack={:?} mem={} pc={} action={:?} ret={}",
        r,
        interp.gas.remaining(),
        interp.gas.total_gas_spent(),
        interp.gas.refunded(),
        interp.stack.data(),
        interp.memory.len(),
        interp.bytecode.pc(),
        interp.bytecode.action(),
        interp.return_data.buffer().len(),
    )
    .unwrap();
    (r, s)
}

struct Out {
    inp: String,
    imp: String,
    direct: Vec<String>,
    stats: BTreeMap<String, u64>,
}
impl Out {
    fn bump(&mut self, k: &str) {
        *self.stats.entry(k.to_owned()).or_insert(0) += 1;
    }
    fn add(&mut self, k: &str, n: u64) {
        *self.stats.entry(k.to_owned()).or_insert(0) += n;
    }
    fn line(&mut self, case: String, imp: String) {
        self.inp.push_str(&case);
        self.inp.push('\n');
        self.imp.push_str(&imp);
        self.imp.push('\n');
    }
    fn fail(&mut self, kind: &str, detail: String, replay: String) {
        let esc = |s: &str| s.replace('\\', "\\\\").replace('"', "\\\"").replace('\n', "\\n");
        self.direct.push(format!("{{\"kind\":\"{}\",\"detail\":\"{}\",\"replay\":\"{}\"}}", esc(kind), esc(&detail), esc(&replay)));
    }
}

fn load_label(host: &ScriptHost, who: Address) -> &'static str {
    // revm's own Host::load_account_delegated on a copy of the scripted host
    let mut h = host.clone();
    match h.load_account_delegated(who) {
        None => "F",
        Some(l) => match l.data.is_delegate_account_cold {
            None => "P",
            Some(false) => "D0",
            Some(true) => "D1",
        },
    }
}

fn class_of(r: &Result<(), InstructionResult>) -> &'static str {
    match r {
        Err(InstructionResult::StateChangeDuringStaticCall) => "STATIC",
        Err(InstructionResult::NotActivated) => "NOTACT",
        Err(InstructionResult::FatalExternalError) => "FATAL",
        _ => "STOCK",
    }
}

fn unit_case(rng: &mut Rng, out: &mut Out, boundary: bool) {
    let spec_n = if boundary { *rng.pick(&[0u8, 4, 5, 11, 12, 14]) } else { rng.below(N_SPECS as u64) as u8 };
    let spec = spec_of(spec_n);
    let is_static = rng.chance(1, 4);
    let c2 = rng.chance(1, 2);
    let op = if c2 { CREATE2 } else { CREATE };
    let tkind = rng.below(8);
    let ckind = rng.below(8);
    let mut host = ScriptHost::new(spec);
    script_account(&mut host, U_CALLER, U_DELEGATE2, ckind);
    script_account(&mut host, U_TARGET, U_DELEGATE, tkind); // target scripted last: wins for shared delegate keys
    let depth = if boundary { *rng.pick(&[0u64, 2, 3, 4]) } else { rng.below(7) };
    let stack: Vec<U256> = (0..depth)
        .map(|_| match rng.below(6) {
            0 => U256::ZERO,
            1 => U256::from(rng.below(64)),
            2 => U256::from(rng.below(70000)),
            3 => U256::MAX,
            _ => U256::from(rng.below(33)),
        })
        .collect();
    let gas = *rng.pick(&[0u64, 100, 31_999, 32_000, 32_006, 1_000_000, u64::MAX >> 1]);
    let ld = load_label(&host, U_TARGET);

    let guarded = grevm::verif::guard::gravity_instructions::<ScriptHost>(spec);
    let stock = EthInstructions::<EthInterpreter, ScriptHost>::new_mainnet_with_spec(spec);
    let mut hg = host.clone();
    let mut hs = host.clone();
    let (rg, og) = step_obs(&guarded, mk_interp(op, spec, is_static, gas, &stack), &mut hg);
    let (_rs, os) = step_obs(&stock, mk_interp(op, spec, is_static, gas, &stack), &mut hs);
    let first = match hg.calls.first() {
        None => "-",
        Some((a, _, _)) if *a == U_TARGET => "T",
        Some((a, _, _)) if *a == U_CALLER => "C",
        Some(_) => "O",
    };
    let eq = og == os;
    out.line(
        format!("dec {spec_n} {} {} {ld} t{tkind} c{ckind} d{depth} g{gas}", is_static as u8, c2 as u8),
        format!("{} host={} first={first} eq={}", class_of(&rg), (!hg.calls.is_empty()) as u8, eq as u8),
    );
    out.bump(&format!("dec_class_{}", class_of(&rg)));
    out.bump(&format!("dec_load_{ld}"));
    if !hs.calls.is_empty() {
        out.fail("stock-create-consulted-host", format!("stock contract::create called load_account_info: {:?}", hs.calls), format!("unit spec={spec_n}"));
    }
}

fn table_stream(out: &mut Out) {
    for spec_n in 0..N_SPECS {
        let spec = spec_of(spec_n);
        let guarded = grevm::verif::guard::gravity_instructions::<ScriptHost>(spec);
        let stock = EthInstructions::<EthInterpreter, ScriptHost>::new_mainnet_with_spec(spec);
        let ndiff = (0..256).filter(|&i| guarded.gas_table()[i] != stock.gas_table()[i]).count();
        out.line(
            format!("gas {spec_n}"),
            format!("ndiff={ndiff} create={} create2={}", guarded.gas_table()[CREATE as usize], guarded.gas_table()[CREATE2 as usize]),
        );
        if ndiff != 0 || stock.gas_table()[CREATE as usize] != 0 || stock.gas_table()[CREATE2 as usize] != 0 {
            out.fail("static-gas", format!("spec {spec_n}: {ndiff} static gas entries differ from stock"), format!("gas spec={spec_n}"));
        }
        for op in 0..=255u8 {
            for (tag, tkind) in [("P", 2u64), ("D", 4u64)] {
                let mut host = ScriptHost::new(spec);
                script_account(&mut host, U_CALLER, U_DELEGATE2, 2);
                script_account(&mut host, U_TARGET, U_DELEGATE, tkind);
                let stack: Vec<U256> = (0..10).map(|k| U256::from([0u64, 0, 3, 1, 2, 0, 1, 5, 0, 4][k])).collect();
                let mut hg = host.clone();
                let mut hs = host.clone();
                let (_, og) = step_obs(&guarded, mk_interp(op, spec, false, 1_000_000, &stack), &mut hg);
                let (_, os) = step_obs(&stock, mk_interp(op, spec, false, 1_000_000, &stack), &mut hs);
                let same = og == os && (hg.calls == hs.calls || op == CREATE || op == CREATE2);
                out.line(format!("op {spec_n} {op} {tag}"), (if same { "same" } else { "diff" }).to_owned());
                out.bump("op_steps");
            }
        }
    }
}

// =================================================================================================
// program level: assembler

#[derive(Default, Clone)]
struct Asm(Vec<u8>);
impl Asm {
    fn op(&mut self, o: u8) -> &mut Self {
        self.0.push(o);
        self
    }
    fn push(&mut self, v: u64) -> &mut Self {
        let b = v.to_be_bytes();
        let skip = b.iter().take_while(|x| **x == 0).count().min(7);
        let n = 8 - skip;
        self.0.push(0x5f + n as u8);
        self.0.extend_from_slice(&b[skip..]);
        self
    }
    fn push_addr(&mut self, a: Address) -> &mut Self {
        self.0.push(0x73);
        self.0.extend_from_slice(a.as_slice());
        self
    }
    fn push32(&mut self, left_aligned: &[u8]) -> &mut Self {
        assert!(left_aligned.len() <= 32);
        let mut w = [0u8; 32];
        w[..left_aligned.len()].copy_from_slice(left_aligned);
        self.0.push(0x7f);
        self.0.extend_from_slice(&w);
        self
    }
}

#[derive(Clone, Copy, Debug)]
enum Rec {
    Pop,
    Sstore(u8),
    Log,
}

fn record(a: &mut Asm, r: Rec) {
    match r {
        Rec::Pop => {
            a.op(0x50);
        }
        Rec::Sstore(k) => {
            a.push(k as u64).op(0x55);
        }
        Rec::Log => {
            a.push(0).op(0x52).push(32).push(0).op(0xa0);
        }
    }
}

fn pick_rec(rng: &mut Rng) -> Rec {
    match rng.below(5) {
        0 | 1 => Rec::Pop,
        2 => Rec::Log,
        _ => Rec::Sstore(rng.below(6) as u8),
    }
}

/// init code of at most 32 bytes
fn small_init(rng: &mut Rng) -> Vec<u8> {
    match rng.below(7) {
        0 => vec![],                                                             // empty: len 0
        1 => vec![0x00],                                                         // STOP: empty runtime
        2 => vec![0x60, 0x00, 0x60, 0x00, 0x53, 0x60, 0x01, 0x60, 0x00, 0xf3],   // returns runtime 0x00
        3 => vec![0x60, 0x00, 0x60, 0x00, 0xfd],                                 // REVERT
        4 => vec![0x60, 0x00, 0x60, 0x00, 0x60, 0x00, 0xf0, 0x50, 0x00],         // nested CREATE (empty init)
        5 => vec![0x60, 0x07, 0x60, 0x01, 0x55, 0x00],                           // SSTORE(1,7) in the new account
        _ => vec![0xfe],                                                         // INVALID
    }
}

#[derive(Clone, Debug)]
enum Kind {
    Contract,
    Authority { predelegated: Option<usize>, quiet: bool },
}

struct World {
    spec_n: u8,
    forbid: bool,
    db: MemDb,
    txs: Vec<TxEnv>,
    entities: Vec<(Address, Kind)>,
    descr: Vec<String>,
}

fn ent_addr(i: usize) -> Address {
    Address::from_word(B256::from(U256::from(0x1000 + i as u64)))
}
fn sender_addr(i: usize) -> Address {
    Address::from_word(B256::from(U256::from(0x2000 + i as u64)))
}
const MINER: Address = Address::new([0xc0; 20]);

fn emit_create(rng: &mut Rng, a: &mut Asm, spec_n: u8) {
    let c2 = rng.chance(1, 2);
    let init = small_init(rng);
    if !init.is_empty() {
        a.push32(&init).push(0).op(0x52);
    }
    let value = if rng.chance(1, 6) { 1 } else { 0 };
    if c2 {
        a.push(rng.below(3));
    }
    // occasionally an absurd size (memory expansion OOG / initcode size limit)
    let size = if rng.chance(1, 25) { 60_000 } else { init.len() as u64 };
    a.push(size).push(0).push(value).op(if c2 { CREATE2 } else { CREATE });
    let _ = spec_n;
    record(a, pick_rec(rng));
}

fn emit_call(rng: &mut Rng, a: &mut Asm, target: Address) {
    let kind = *rng.pick(&[0xf1u8, 0xf1, 0xf4, 0xf4, 0xfa, 0xfa, 0xf2]);
    a.push(0).push(0).push(0).push(0);
    if kind == 0xf1 || kind == 0xf2 {
        a.push(if rng.chance(1, 8) { 1 } else { 0 });
    }
    a.push_addr(target);
    if rng.chance(3, 4) {
        a.op(0x5a); // GAS
    } else {
        a.push(*rng.pick(&[0u64, 2300, 40_000, 100_000]));
    }
    a.op(kind);
    record(a, pick_rec(rng));
}

fn emit_misc(rng: &mut Rng, a: &mut Asm, addrs: &[Address]) {
    match rng.below(9) {
        0 => {
            a.push(rng.below(1000)).push(rng.below(6)).op(0x55); // SSTORE
        }
        1 => {
            a.push(rng.below(6)).op(0x54); // SLOAD
            record(a, pick_rec(rng));
        }
        2 => {
            a.push_addr(*rng.pick(addrs)).op(0x31); // BALANCE
            record(a, pick_rec(rng));
        }
        3 => {
            a.push_addr(*rng.pick(addrs)).op(0x3b); // EXTCODESIZE
            record(a, pick_rec(rng));
        }
        4 => {
            a.push_addr(*rng.pick(addrs)).op(0x3f); // EXTCODEHASH (Constantinople+)
            record(a, pick_rec(rng));
        }
        5 => {
            a.op(0x5a); // GAS: makes any gas difference visible in state / logs
            record(a, pick_rec(rng));
        }
        6 => {
            a.push(rng.below(50)).push(rng.below(50)).op(*rng.pick(&[0x01u8, 0x02, 0x03, 0x10, 0x16]));
            record(a, pick_rec(rng));
        }
        7 => {
            a.op(*rng.pick(&[0x30u8, 0x32, 0x33, 0x34, 0x3a, 0x43])); // ADDRESS ORIGIN CALLER CALLVALUE GASPRICE NUMBER
            record(a, pick_rec(rng));
        }
        _ => {
            a.push(1).op(0xa0 - 0xa0 + 0x50); // PUSH, POP
        }
    }
}

fn gen_code(rng: &mut Rng, spec_n: u8, callees: &[Address], addrs: &[Address], create_bias: u64) -> Vec<u8> {
    let mut a = Asm::default();
    let n = rng.range(1, 6);
    for _ in 0..n {
        let r = rng.below(10);
        if r < create_bias {
            emit_create(rng, &mut a, spec_n);
        } else if r < create_bias + 3 && !callees.is_empty() {
            let callee = *rng.pick(callees);
            emit_call(rng, &mut a, callee);
        } else {
            emit_misc(rng, &mut a, addrs);
        }
    }
    match rng.below(12) {
        0 => {
            a.push(0).push(0).op(0xfd); // REVERT
        }
        1 => {
            a.op(0xfe); // INVALID
        }
        2 => {
            a.push_addr(*rng.pick(addrs)).op(0xff); // SELFDESTRUCT
        }
        3 => {
            a.push(32).push(0).op(0xf3); // RETURN 32 bytes of memory
        }
        _ => {
            a.op(0x00);
        }
    }
    a.0
}

fn gen_world(rng: &mut Rng) -> World {
    let spec_n = match rng.below(10) {
        0..=4 => rng.range(12, 14) as u8,
        5 => *rng.pick(&[4u8, 5, 11]),
        _ => rng.below(N_SPECS as u64) as u8,
    };
    let forbid = rng.chance(3, 5);
    let n_ent = rng.range(3, 7) as usize;
    let mut db = MemDb { inline_code: rng.chance(1, 2), ..Default::default() };
    let mut descr = Vec::new();
    let rich = U256::from(10u64).pow(U256::from(18));
    // kinds first (so code can refer to later entities by address)
    let mut kinds: Vec<Kind> = Vec::new();
    for i in 0..n_ent {
        let last = i + 1 == n_ent;
        if !last && rng.chance(2, 5) {
            kinds.push(Kind::Authority { predelegated: None, quiet: false });
        } else {
            kinds.push(Kind::Contract);
        }
    }
    let contract_after = |kinds: &[Kind], i: usize, rng: &mut Rng| -> Option<usize> {
        let c: Vec<usize> = (i + 1..kinds.len()).filter(|j| matches!(kinds[*j], Kind::Contract)).collect();
        if c.is_empty() { None } else { Some(*rng.pick(&c)) }
    };
    for i in 0..n_ent {
        if let Kind::Authority { .. } = kinds[i] {
            let pre = if rng.chance(3, 5) { contract_after(&kinds, i, rng) } else { None };
            let quiet = pre.is_some() && rng.chance(1, 2);
            kinds[i] = Kind::Authority { predelegated: pre, quiet };
        }
    }
    let addrs: Vec<Address> = (0..n_ent).map(ent_addr).chain([sender_addr(0), MINER, Address::with_last_byte(4), Address::with_last_byte(0x77)]).collect();
    for i in 0..n_ent {
        let callees: Vec<Address> = (i + 1..n_ent).map(ent_addr).chain(if rng.chance(1, 6) { vec![Address::with_last_byte(4), Address::with_last_byte(0x77)] } else { vec![] }).collect();
        match &kinds[i] {
            Kind::Contract => {
                let code = gen_code(rng, spec_n, &callees, &addrs, 4);
                descr.push(format!("contract {:x} code={}", ent_addr(i), gc::hex(&code)));
                db.put_code(ent_addr(i), U256::from(rng.below(3) * 1000), 1, Bytecode::new_raw(code.into()));
            }
            Kind::Authority { predelegated, quiet } => {
                let nonce = rng.below(3);
                match predelegated {
                    Some(j) => {
                        db.put_code(ent_addr(i), rich, nonce, Bytecode::new_eip7702(ent_addr(*j)));
                        descr.push(format!("authority {:x} nonce={nonce} designator->{:x} quiet={quiet}", ent_addr(i), ent_addr(*j)));
                    }
                    None => {
                        db.put_eoa(ent_addr(i), rich, nonce);
                        descr.push(format!("authority {:x} nonce={nonce} plain", ent_addr(i)));
                    }
                }
            }
        }
    }
    for k in 0..4 {
        db.put_eoa(sender_addr(k), rich, k as u64);
    }
    // every designator an authorization list can install must be resolvable by code hash
    for i in 0..n_ent {
        let d = Bytecode::new_eip7702(ent_addr(i));
        db.code.insert(d.hash_slow(), d);
    }

    // transactions
    let n_tx = rng.range(2, 7) as usize;
    let mut nonces: HashMap<Address, u64> = HashMap::new();
    let mut txs = Vec::new();
    let loud: Vec<usize> = (0..n_ent).filter(|i| matches!(kinds[*i], Kind::Authority { quiet: false, .. })).collect();
    let contracts: Vec<usize> = (0..n_ent).filter(|i| matches!(kinds[*i], Kind::Contract)).collect();
    let auth_senders: Vec<usize> = (0..n_ent).filter(|i| matches!(kinds[*i], Kind::Authority { .. })).collect();
    for _ in 0..n_tx {
        // delegated accounts send transactions too: "loud" ones (also re-authorized by authorization
        // lists) and "quiet" ones (pre-delegated in the database, never re-authorized)
        let from = if !auth_senders.is_empty() && rng.chance(1, 4) { ent_addr(*rng.pick(&auth_senders)) } else { sender_addr(rng.below(4) as usize) };
        let base = db.accounts.get(&from).map_or(0, |i| i.nonce);
        let nonce = *nonces.entry(from).or_insert(base);
        let wrong_nonce = rng.chance(1, 40);
        if !wrong_nonce {
            nonces.insert(from, nonce + 1);
        }
        let gas_limit = if rng.chance(1, 10) { 60_000 } else { *rng.pick(&[100_000u64, 300_000, 1_000_000, 1_000_000, 3_000_000]) };
        let mut tx = TxEnv {
            caller: from,
            gas_limit,
            gas_price: rng.range(1, 3) as u128,
            nonce: if wrong_nonce { nonce + 1 + rng.below(2) } else { nonce },
            value: if rng.chance(1, 6) { U256::from(rng.below(1000)) } else { U256::ZERO },
            chain_id: Some(1),
            ..Default::default()
        };
        let r = rng.below(10);
        if r < 5 {
            tx.kind = TxKind::Call(ent_addr(rng.below(n_ent as u64) as usize));
        } else if r < 7 {
            let callees: Vec<Address> = (0..n_ent).map(ent_addr).collect();
            let mut code = gen_code(rng, spec_n, &callees, &addrs, 4);
            if rng.chance(1, 2) {
                // replace a trailing STOP by RETURN of a one-byte runtime
                if code.last() == Some(&0x00) {
                    code.pop();
                    code.extend_from_slice(&[0x60, 0x00, 0x60, 0x00, 0x53, 0x60, 0x01, 0x60, 0x00, 0xf3]);
                }
            }
            tx.kind = TxKind::Create;
            tx.gas_limit = tx.gas_limit.max(300_000);
            tx.data = code.into();
        } else if r < 9 && spec_n >= 12 || r < 8 && rng.chance(1, 10) {
            // EIP-7702 transaction (before Prague: an invalid transaction, skipped on every side)
            let mut auths = Vec::new();
            for _ in 0..rng.range(1, 2) {
                let who = if loud.is_empty() { sender_addr(3) } else { ent_addr(*rng.pick(&loud)) };
                let to = match rng.below(6) {
                    0 => Address::ZERO,
                    1 => Address::with_last_byte(0x77),
                    _ if !contracts.is_empty() => ent_addr(*rng.pick(&contracts)),
                    _ => Address::ZERO,
                };
                let n0 = db.accounts.get(&who).map_or(0, |i| i.nonce);
                let an = *nonces.get(&who).unwrap_or(&n0) + if who == from { 0 } else { 0 };
                let an = if rng.chance(1, 10) { an + 1 } else { an };
                if rng.chance(9, 10) {
                    nonces.insert(who, an + 1);
                }
                let chain = if rng.chance(1, 12) { U256::from(5) } else if rng.chance(1, 2) { U256::ZERO } else { U256::from(1) };
                let auth = Authorization { chain_id: chain, address: to, nonce: an };
                let rec = if rng.chance(1, 15) { RecoveredAuthority::Invalid } else { RecoveredAuthority::Valid(who) };
                auths.push(Either::Right(RecoveredAuthorization::new_unchecked(auth, rec)));
            }
            tx.tx_type = 4;
            tx.gas_limit = tx.gas_limit.max(1_000_000);
            tx.authorization_list = auths;
            tx.kind = TxKind::Call(ent_addr(rng.below(n_ent as u64) as usize));
        } else {
            tx.kind = TxKind::Call(sender_addr(rng.below(4) as usize));
        }
        txs.push(tx);
    }
    for (i, t) in txs.iter().enumerate() {
        descr.push(format!(
            "tx{i} type={} from={:x} nonce={} to={:?} gas={} price={} value={:x} data={} auths={:?}",
            t.tx_type, t.caller, t.nonce, t.kind, t.gas_limit, t.gas_price, t.value, gc::hex(&t.data),
            t.authorization_list.iter().map(|a| match a { Either::Right(r) => format!("{:?}->{:x}@{} chain={}", r.authority(), r.address, r.nonce, r.chain_id), _ => "signed".to_owned() }).collect::<Vec<_>>()
        ));
    }
    let entities = (0..n_ent).map(|i| (ent_addr(i), kinds[i].clone())).collect();
    World { spec_n, forbid, db, txs, entities, descr }
}

// =================================================================================================
// program level: inspector

#[derive(Clone, Copy, PartialEq, Eq, Debug)]
enum Mode {
    /// reference guard written from the property text: CREATE/CREATE2 executed in the context of an
    /// account carrying a designator halts the frame as NotActivated
    RefGuard,
    /// passive: record what each CREATE/CREATE2 step did
    Trace,
}

#[derive(Clone, Debug)]
struct CreateEvent {
    tx: usize,
    depth: usize,
    c2: bool,
    is_static: bool,
    delegated: bool,
    class: &'static str,
}

struct GuardInsp {
    mode: Mode,
    codes: Arc<HashMap<B256, Bytecode>>,
    tx: usize,
    depth: usize,
    pending: Option<(bool, bool, bool)>,
    events: Vec<CreateEvent>,
    interventions: Vec<(usize, usize)>,
}

impl GuardInsp {
    fn new(mode: Mode, codes: Arc<HashMap<B256, Bytecode>>) -> Self {
        Self { mode, codes, tx: 0, depth: 0, pending: None, events: Vec::new(), interventions: Vec::new() }
    }
    fn delegated<CTX: ContextTr<Journal: JournalTr<State = revm::state::EvmState>>>(&self, ctx: &CTX, a: Address) -> bool {
        match ctx.journal_ref().evm_state().get(&a) {
            None => false,
            Some(acc) => match &acc.info.code {
                Some(c) => is_designator(c),
                None => self.codes.get(&acc.info.code_hash).is_some_and(is_designator),
            },
        }
    }
}

impl<CTX> Inspector<CTX> for GuardInsp
where
    CTX: ContextTr<Journal: JournalTr<State = revm::state::EvmState>>,
{
    fn step(&mut self, interp: &mut Interpreter<EthInterpreter>, ctx: &mut CTX) {
        let op = interp.bytecode.opcode();
        if op != CREATE && op != CREATE2 {
            return;
        }
        let c2 = op == CREATE2;
        let is_static = interp.runtime_flag.is_static();
        let spec = interp.runtime_flag.spec_id();
        let delegated = self.delegated(ctx, interp.input.target_address());
        self.pending = Some((c2, is_static, delegated));
        if self.mode == Mode::RefGuard && !is_static && !(c2 && !spec.is_enabled_in(SpecId::PETERSBURG)) && delegated {
            interp.halt(InstructionResult::NotActivated);
            self.interventions.push((self.tx, self.depth));
            self.events.push(CreateEvent { tx: self.tx, depth: self.depth, c2, is_static, delegated, class: "NOTACT" });
            self.pending = None;
        }
    }
    fn step_end(&mut self, interp: &mut Interpreter<EthInterpreter>, _ctx: &mut CTX) {
        if let Some((c2, is_static, delegated)) = self.pending.take() {
            let class = match interp.bytecode.action() {
                Some(InterpreterAction::Return(r)) => match r.result {
                    InstructionResult::StateChangeDuringStaticCall => "STATIC",
                    InstructionResult::NotActivated => "NOTACT",
                    InstructionResult::FatalExternalError => "FATAL",
                    _ => "STOCK",
                },
                _ => "STOCK",
            };
            self.events.push(CreateEvent { tx: self.tx, depth: self.depth, c2, is_static, delegated, class });
        }
    }
    fn call(&mut self, _ctx: &mut CTX, _i: &mut CallInputs) -> Option<CallOutcome> {
        self.depth += 1;
        None
    }
    fn call_end(&mut self, _ctx: &mut CTX, _i: &CallInputs, _o: &mut CallOutcome) {
        self.depth = self.depth.saturating_sub(1);
    }
    fn create(&mut self, _ctx: &mut CTX, _i: &mut CreateInputs) -> Option<CreateOutcome> {
        self.depth += 1;
        None
    }
    fn create_end(&mut self, _ctx: &mut CTX, _i: &CreateInputs, _o: &mut CreateOutcome) {
        self.depth = self.depth.saturating_sub(1);
    }
}

// =================================================================================================
// program level: runs and predicates

fn cfg_block(spec_n: u8) -> (CfgEnv, BlockEnv) {
    let cfg = CfgEnv::new_with_spec(spec_of(spec_n));
    let block = BlockEnv { beneficiary: MINER, number: U256::from(10), ..Default::default() };
    (cfg, block)
}

struct StockRun {
    res: BlockResult,
    raw: (Vec<TxExecutionOutcome>, revm::database::BundleState),
    events: Vec<CreateEvent>,
    interventions: Vec<(usize, usize)>,
}

fn stock_run(w: &World, mode: Option<Mode>, gravity_table: bool) -> Result<StockRun, String> {
    let (cfg, block) = cfg_block(w.spec_n);
    let codes = Arc::new(w.db.code.clone());
    let insp = GuardInsp::new(mode.unwrap_or(Mode::Trace), codes);
    let mut evm = gc::stock_evm(&w.db, &cfg, &block, insp);
    if gravity_table {
        evm.instruction = grevm::verif::guard::gravity_instructions(cfg.spec);
    }
    let raw = gc::run_stock_on(&mut evm, &w.txs, mode.is_some(), |i, insp: &mut GuardInsp| {
        insp.tx = i;
        insp.depth = 0;
        insp.pending = None;
    })?;
    Ok(StockRun { res: gc::block_result(&raw), events: std::mem::take(&mut evm.inspector.events), interventions: std::mem::take(&mut evm.inspector.interventions), raw })
}

fn final_nonce(bundle: &revm::database::BundleState, db: &MemDb, a: Address) -> Option<u64> {
    match bundle.state.get(&a) {
        Some(acc) => acc.info.as_ref().map(|i| i.nonce),
        None => db.accounts.get(&a).map(|i| i.nonce),
    }
}

fn prog_case(idx: u64, rng: &mut Rng, out: &mut Out, seed: u64) {
    let w = gen_world(rng);
    let replay = format!("guard {seed} 0 {} <outdir> {idx}   # spec={} forbid={}\n{}", idx + 1, w.spec_n, w.forbid, w.descr.join("\n"));
    let (cfg, block) = cfg_block(w.spec_n);
    let db = Arc::new(w.db.clone());
    let txs = Arc::new(w.txs.clone());
    let safety = DelegatedSafetyConfig { forbid_delegated_create: w.forbid, reserve_delegated_balance: false };

    macro_rules! tryrun {
        ($e:expr, $what:expr) => {
            match $e {
                Ok(v) => v,
                Err(e) => {
                    out.fail("run-error", format!("{}: {e}", $what), replay.clone());
                    out.line(format!("sel {} {} 0 0", w.spec_n, w.forbid as u8), "ERR".to_owned());
                    return;
                }
            }
        };
    }
    let r0 = tryrun!(stock_run(&w, None, false), "stock revm");
    let r_on = tryrun!(stock_run(&w, Some(Mode::RefGuard), false), "stock revm + reference guard");
    let t = tryrun!(stock_run(&w, Some(Mode::Trace), true), "stock revm + real guarded table + tracer");
    let g_seq_raw = tryrun!(gc::run_grevm(&db, &cfg, &block, &txs, None, safety, 0), "grevm sequential");
    let g_seq = gc::block_result(&g_seq_raw);
    let g_par = if rng.chance(1, 2) {
        let raw = tryrun!(gc::run_grevm(&db, &cfg, &block, &txs, None, safety, 3), "grevm parallel");
        Some(gc::block_result(&raw))
    } else {
        None
    };

    let intervened = !r_on.interventions.is_empty();
    if !intervened {
        // the reference inspector must be passive when it has nothing to halt
        if let Some(d) = r_on.res.first_diff(&r0.res) {
            out.fail("harness-inspector-not-passive", d, replay.clone());
        }
    }
    let distinguishable = intervened && r_on.res != r0.res;
    out.bump(if intervened { "prog_delegated_create_reached" } else { "prog_no_delegated_create" });
    if distinguishable {
        out.bump("prog_distinguishable");
    }

    // --- the property, model-independent -------------------------------------------------------
    // expected engine per the property text: guard enabled AND Prague or later
    let guard_on = w.forbid && w.spec_n >= 12;
    let expect = if guard_on { &r_on } else { &r0 };
    let what = if guard_on { "stock revm + reference guard (guard enabled, >= Prague)" } else { "stock revm (guard disabled or before Prague)" };
    if let Some(d) = g_seq.first_diff(&expect.res) {
        let kind = if !guard_on { "engine-differs-from-stock-while-guard-inert" } else if !intervened { "guarded-engine-differs-from-stock-without-delegated-create" } else { "guarded-engine-differs-from-reference-guard" };
        out.fail(kind, format!("grevm(sequential) vs {what}: {d}"), replay.clone());
    }
    if let Some(p) = &g_par {
        if let Some(d) = p.first_diff(&expect.res) {
            out.fail("parallel-engine-differs", format!("grevm(parallel) vs {what}: {d}"), replay.clone());
        }
    }
    if guard_on {
        // top-level delegated create => Halt(NotActivated)
        for (tx, depth) in &r_on.interventions {
            if *depth == 1 {
                out.bump("prog_top_level_halt");
                if !gc::is_halt_not_activated(&g_seq_raw.0[*tx]) {
                    out.fail("top-level-delegated-create-not-halted", format!("tx {tx}: {:?}", g_seq_raw.0[*tx]), replay.clone());
                }
            } else {
                out.bump("prog_inner_frame_failed");
            }
        }
        // a quiet pre-delegated account (never re-authorized): its nonce advances only by its own
        // executed transactions, and none of them is skipped as NonceTooLow
        for (a, k) in &w.entities {
            if let Kind::Authority { predelegated: Some(_), quiet: true } = k {
                let n0 = w.db.accounts[a].nonce;
                let mut own = 0u64;
                for (i, t) in w.txs.iter().enumerate() {
                    if t.caller == *a {
                        out.bump("prog_tx_sent_by_quiet_delegated_account");
                        match &g_seq_raw.0[i] {
                            TxExecutionOutcome::Executed(_) => own += 1,
                            TxExecutionOutcome::Skipped(grevm::InvalidTransaction::NonceTooLow { .. }) => {
                                out.fail("delegated-account-later-transaction-invalidated", format!("tx {i} from {a:x} skipped as NonceTooLow with the guard on: {:?}", g_seq_raw.0[i]), replay.clone());
                            }
                            TxExecutionOutcome::Skipped(_) => {}
                        }
                    }
                }
                if final_nonce(&g_seq_raw.1, &w.db, *a) != Some(n0 + own) {
                    out.fail("delegated-account-nonce-advanced", format!("{a:x}: nonce {n0} -> {:?} with the guard on, {own} own executed transactions", final_nonce(&g_seq_raw.1, &w.db, *a)), replay.clone());
                }
            }
        }
    } else {
        for (a, k) in &w.entities {
            if let Kind::Authority { predelegated: Some(_), quiet: true } = k {
                let own = w.txs.iter().enumerate().filter(|(i, t)| t.caller == *a && matches!(g_seq_raw.0[*i], TxExecutionOutcome::Executed(_))).count() as u64;
                if final_nonce(&g_seq_raw.1, &w.db, *a) != Some(w.db.accounts[a].nonce + own) {
                    out.bump("prog_hazard_nonce_advanced_without_guard");
                }
                if w.txs.iter().enumerate().any(|(i, t)| t.caller == *a && matches!(g_seq_raw.0[i], TxExecutionOutcome::Skipped(grevm::InvalidTransaction::NonceTooLow { .. }))) {
                    out.bump("prog_hazard_later_tx_invalidated_without_guard");
                }
            }
        }
    }
    // the real guarded table on the stock handler == the reference guard, on every spec
    if let Some(d) = t.res.first_diff(&r_on.res) {
        out.fail("guarded-table-differs-from-reference-guard", format!("stock revm + gravity_instructions vs stock revm + reference guard: {d}"), replay.clone());
    }

    // --- lines for the extracted model -----------------------------------------------------------
    let sel = if !distinguishable {
        "-"
    } else if g_seq == r_on.res {
        "G"
    } else if g_seq == r0.res {
        "S"
    } else {
        "X"
    };
    out.line(format!("sel {} {} 0 {}", w.spec_n, w.forbid as u8, distinguishable as u8), sel.to_owned());
    let mut seen = HashSet::new();
    for e in &t.events {
        out.bump("prog_create_events");
        out.bump(&format!("prog_event_{}{}{}", e.class, if e.is_static { "_static" } else { "" }, if e.delegated { "_deleg" } else { "" }));
        out.bump(&format!("prog_event_depth_{}", e.depth.min(4)));
        let key = (e.c2, e.is_static, e.delegated, e.class);
        if seen.insert(key) {
            out.line(
                format!("ev {} {} {} {}", w.spec_n, e.is_static as u8, e.c2 as u8, if e.delegated { "D0" } else { "P" }),
                e.class.to_owned(),
            );
        }
    }
    out.bump(&format!("prog_spec_{:02}", w.spec_n));
    out.add("prog_txs", w.txs.len() as u64);
    out.add("prog_tx_halt_or_revert", g_seq_raw.0.iter().filter(|o| matches!(o, TxExecutionOutcome::Executed(r) if !r.is_success())).count() as u64);
    out.add("prog_tx_skipped", g_seq_raw.0.iter().filter(|o| matches!(o, TxExecutionOutcome::Skipped(_))).count() as u64);
    for o in &g_seq_raw.0 {
        let k = match o {
            TxExecutionOutcome::Executed(revm::context_interface::result::ExecutionResult::Success { .. }) => "prog_out_success".to_owned(),
            TxExecutionOutcome::Executed(revm::context_interface::result::ExecutionResult::Revert { .. }) => "prog_out_revert".to_owned(),
            TxExecutionOutcome::Executed(revm::context_interface::result::ExecutionResult::Halt { reason, .. }) => format!("prog_out_halt_{reason:?}"),
            TxExecutionOutcome::Skipped(e) => format!("prog_out_skip_{}", format!("{e:?}").split(|c: char| !c.is_alphanumeric()).next().unwrap_or("?")),
        };
        out.bump(&k);
        if k.contains("OutOfGas(Basic)") || k.contains("CallGasCost") || k.contains("NonceTooHigh") { out.bump(&format!("{k}_spec{:02}", w.spec_n)); }
    }
    let _ = &r0.raw;
}

/// Finding F12 (directed reproduction; block and analysis by an independent code-reading sub-agent).
/// Prague, guard on, NO delegation anywhere. A factory runs CREATE(init = "CREATE(0,0,0); REVERT"),
/// then SELFDESTRUCT(address of the failed create). The guard's `load_account_delegated(target)` in
/// front of the nested CREATE loads the account being created WITH code, turning `info.code` from
/// None into Some(empty); the reverted create frame does not restore it; the SELFDESTRUCT funds the
/// address without loading code, so it is committed as a new account with `code: Some(empty)` and the
/// bundle gains `contracts[KECCAK_EMPTY]` - with the guard off, and in stock revm, it does not.
fn f12() -> bool {
    let factory = Address::from_word(B256::from(U256::from(920_000u64)));
    let child = factory.create(1);
    let sender = Address::from_word(B256::from(U256::from(0x7001u64)));
    let miner = Address::new([0xc0; 20]);
    let init: [u8; 7] = [0x5f, 0x5f, 0x5f, 0xf0, 0x5f, 0x5f, 0xfd];
    let mut code = vec![0x66];
    code.extend_from_slice(&init);
    code.extend_from_slice(&[0x5f, 0x52, 0x60, 0x07, 0x60, 0x19, 0x5f, 0xf0, 0x50, 0x73]);
    code.extend_from_slice(child.as_slice());
    code.push(0xff);
    let mut db = MemDb::default();
    db.put_code(factory, U256::from(10u64).pow(U256::from(18)), 1, Bytecode::new_raw(code.into()));
    db.put_eoa(sender, U256::from(10u64).pow(U256::from(18)), 0);
    db.put_eoa(miner, U256::from(1), 0); // an existing fee recipient: a new one would itself add contracts[KECCAK_EMPTY]
    let txs = vec![TxEnv { caller: sender, kind: TxKind::Call(factory), gas_limit: 1_000_000, gas_price: 1, nonce: 0, chain_id: Some(1), ..Default::default() }];
    let cfg = CfgEnv::new_with_spec(SpecId::PRAGUE);
    let block = BlockEnv { beneficiary: miner, number: U256::from(10), ..Default::default() };
    let stock = {
        let mut evm = gc::stock_evm(&db, &cfg, &block, revm::inspector::NoOpInspector {});
        gc::block_result(&gc::run_stock_on(&mut evm, &txs, false, |_, _| {}).expect("stock revm"))
    };
    let (dba, txa) = (Arc::new(db.clone()), Arc::new(txs.clone()));
    if std::env::var("F12_DEBUG").is_ok() {
        println!("{:#?}", stock);
    }
    let mut reproduced = false;
    for (label, safety) in [("guard-off", DelegatedSafetyConfig::disabled()), ("guard-on", DelegatedSafetyConfig { forbid_delegated_create: true, reserve_delegated_balance: false })] {
        for workers in [0usize, 2] {
            let g = gc::block_result(&gc::run_grevm(&dba, &cfg, &block, &txa, None, safety, workers).expect("grevm"));
            let d = g.first_diff(&stock);
            println!("F12 {label} workers={workers} differs_from_stock_revm={} {}", d.is_some() as u8, d.clone().unwrap_or_default().replace('\n', " "));
            if label == "guard-off" && d.is_some() {
                println!("F12-UNEXPECTED the guard-off run differs from stock revm");
                std::process::exit(11);
            }
            reproduced |= label == "guard-on" && d.is_some();
        }
    }
    reproduced
}

fn main() {
    let a: Vec<String> = std::env::args().collect();
    if a[1] == "f12" {
        std::process::exit(if f12() { 10 } else { 0 });
    }
    let seed: u64 = a[1].parse().unwrap();
    let n_unit: u64 = a[2].parse().unwrap();
    let n_prog: u64 = a[3].parse().unwrap();
    let outdir = &a[4];
    let only: Option<u64> = a.get(5).map(|s| s.parse().unwrap());
    let mut out = Out { inp: String::new(), imp: String::new(), direct: Vec::new(), stats: BTreeMap::new() };
    if only.is_none() {
        table_stream(&mut out);
        let mut rng = Rng::new(seed ^ 0x51);
        for i in 0..n_unit {
            let mut r = rng.fork();
            unit_case(&mut r, &mut out, i % 5 == 4);
        }
    }
    let mut rng = Rng::new(seed ^ 0xC12);
    for i in 0..n_prog {
        let mut r = rng.fork();
        if only.is_some_and(|o| o != i) {
            continue;
        }
        prog_case(i, &mut r, &mut out, seed);
    }
    fs::create_dir_all(outdir).unwrap();
    fs::write(format!("{outdir}/guard.in"), &out.inp).unwrap();
    fs::write(format!("{outdir}/guard.impl"), &out.imp).unwrap();
    fs::write(format!("{outdir}/guard.direct"), out.direct.join("\n") + if out.direct.is_empty() { "" } else { "\n" }).unwrap();
    let stats: Vec<String> = out.stats.iter().map(|(k, v)| format!("\"{k}\":{v}")).collect();
    fs::write(format!("{outdir}/guard.stats"), format!("{{{}}}\n", stats.join(","))).unwrap();
    if only.is_some() {
        let mut rng = Rng::new(seed ^ 0xC12);
        for i in 0..n_prog {
            let mut r = rng.fork();
            if only == Some(i) {
                let w = gen_world(&mut r);
                println!("spec={} forbid={}\n{}", w.spec_n, w.forbid, w.descr.join("\n"));
                let (cfg, block) = cfg_block(w.spec_n);
                let g = gc::run_grevm(&Arc::new(w.db.clone()), &cfg, &block, &Arc::new(w.txs.clone()), None, DelegatedSafetyConfig { forbid_delegated_create: w.forbid, reserve_delegated_balance: false }, 0).unwrap();
                for l in gc::canon_outcomes(&g.0) { println!("grevm: {l}"); }
                for l in gc::canon_bundle(&g.1) { println!("grevm: {l}"); }
            }
        }
        print!("{}", out.inp);
        print!("{}", out.imp);
        for d in &out.direct {
            println!("{d}");
        }
    }
}
