//! Sequential operation-sequence differential for the small scheduler objects.
//! usage: objseq <kind> <seed> <count> <outdir>     kind = cursor | frontier
//! Writes <outdir>/<kind>.in (one case per line, the model's input) and <outdir>/<kind>.impl (what
//! the real object returned). Every random choice derives from <seed>.
use grevm::verif::objects::{CursorV, FrontierV};
use std::{fmt::Write as _, fs};
use verif_harness::rng::Rng;

fn cursor_case(rng: &mut Rng, inp: &mut String, out: &mut String) {
    let n = rng.range(1, 8) as usize; // index range
    let init = rng.below(n as u64 + 1) as usize;
    let len = rng.range(1, 24);
    let cur = CursorV::new(init);
    write!(inp, "cursor {init}").unwrap();
    for _ in 0..len {
        if rng.chance(2, 3) {
            // limits mostly near the cursor, sometimes far / zero
            let limit = match rng.below(4) {
                0 => rng.below(n as u64 + 2) as usize,
                1 => cur.get() + 1,
                2 => cur.get(),
                _ => n,
            };
            write!(inp, " c{limit}").unwrap();
            match cur.claim_before(limit) {
                None => out.push_str(" N"),
                Some(i) => write!(out, " S{i}").unwrap(),
            }
        } else {
            let v = rng.below(n as u64 + 2) as usize;
            write!(inp, " r{v}").unwrap();
            write!(out, " P{}", cur.rewind(v)).unwrap();
        }
    }
    write!(out, " ={}", cur.get()).unwrap();
}

fn frontier_case(rng: &mut Rng, inp: &mut String, out: &mut String) {
    let n = rng.range(1, 7) as usize;
    let fr = FrontierV::new(n);
    let len = rng.range(1, 2 * n as u64 + 2);
    write!(inp, "frontier {n}").unwrap();
    for _ in 0..len {
        if rng.chance(3, 4) {
            let i = rng.below(n as u64) as usize;
            write!(inp, " p{i}").unwrap();
            fr.publish(i);
            write!(out, " f{}", fr.raw_frontier()).unwrap();
        } else {
            write!(inp, " q").unwrap();
            write!(out, " C{}", fr.current()).unwrap();
        }
    }
    write!(out, " ={}", fr.current()).unwrap();
    for i in 0..n {
        write!(out, "{}", if fr.flag(i) { '1' } else { '0' }).unwrap();
    }
}

fn main() {
    let a: Vec<String> = std::env::args().collect();
    let (kind, seed, count, outdir) = (&a[1], a[2].parse::<u64>().unwrap(), a[3].parse::<u64>().unwrap(), &a[4]);
    let mut rng = Rng::new(seed);
    let (mut inp, mut out) = (String::new(), String::new());
    for _ in 0..count {
        let mut case_rng = rng.fork();
        match kind.as_str() {
            "cursor" => cursor_case(&mut case_rng, &mut inp, &mut out),
            "frontier" => frontier_case(&mut case_rng, &mut inp, &mut out),
            k => panic!("unknown kind {k}"),
        }
        inp.push('\n');
        out.push('\n');
    }
    fs::create_dir_all(outdir).unwrap();
    fs::write(format!("{outdir}/{kind}.in"), inp).unwrap();
    fs::write(format!("{outdir}/{kind}.impl"), out).unwrap();
}
