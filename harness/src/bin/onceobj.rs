//! C14 correspondence: several callers race on execute / parallel_execute / fallback_sequential of
//! one real Scheduler. Driven mode (deterministic driver; the block takes the sequential path so no
//! further threads are spawned) produces one trace per case for the Coq acceptor; free mode races
//! real threads on the parallel path. usage: onceobj <seed> <count> <outfile>
use grevm::{ParallelState, ParallelTakeBundle, Scheduler};
use revm_database::states::bundle_state::BundleRetention;
use std::{fmt::Write as _, sync::Arc};
use verif_harness::{
    driver::{Driver, RandomWalk, trace_lines},
    e2e::*,
    rng::Rng,
};

fn main() {
    let a: Vec<String> = std::env::args().collect();
    let (seed, count, out) = (a[1].parse::<u64>().unwrap(), a[2].parse::<u64>().unwrap(), &a[3]);
    let mut rng = Rng::new(seed);
    let mut text = String::new();
    std::fs::write(out, "").unwrap();
    // watchdog: a caller that never returns (free-threaded cases have no driver to notice) must not
    // hang the check; report the case and stop
    let progress = Arc::new(std::sync::atomic::AtomicU64::new(0));
    {
        let progress = progress.clone();
        let out = out.clone();
        std::thread::spawn(move || {
            let mut last = (u64::MAX, std::time::Instant::now());
            loop {
                std::thread::sleep(std::time::Duration::from_millis(500));
                let cur = progress.load(std::sync::atomic::Ordering::SeqCst);
                if cur != last.0 {
                    last = (cur, std::time::Instant::now());
                } else if last.1.elapsed() > std::time::Duration::from_secs(40) {
                    use std::io::Write as _;
                    let mut f = std::fs::OpenOptions::new().append(true).open(&out).unwrap();
                    writeln!(f, "# case {cur} HANG a call to execute / parallel_execute / fallback_sequential did not return within 40s").unwrap();
                    std::process::exit(3);
                }
            }
        });
    }
    let mut bad_cases = 0;
    for case in 0..count {
        progress.store(case, std::sync::atomic::Ordering::SeqCst);
        let mut crng = rng.fork();
        let n = crng.below(5) as usize; // 0..4 transactions (empty block included)
        let inv = crng.chance(1, 3);
        let (world, block) = gen_block(&mut crng, n, GenOpts { invalid: inv, destroy: false, create: false, beneficiary_roles: true, shared_callers: true, chain: false, cb: false, multi: false, empty_ben: false, auth: false, maxn: false });
        let orc = oracle(&world.db, &block);
        let callers = crng.range(2, 4) as usize;
        let driven = crng.chance(2, 3);
        let entries: Vec<u64> = (0..callers).map(|_| crng.below(3)).collect();
        let successive = crng.chance(1, 4); // callers one after the other instead of racing
        let (cfg, env) = envs(&block);
        let mut rc = RunCfg { workers: 2, ..Default::default() };
        if driven {
            if crng.chance(1, 2) { rc.force_sequential = true } else { rc.min_parallel_txs = n + 1 }
        }
        // untouched before start
        let fresh = Scheduler::new_with_runtime_config(cfg.clone(), env.clone(), Arc::new(block.txs.clone()), ParallelState::new(Arc::new(world.db.clone_data()), true, false), None, grevm_config(&rc));
        let (o0, mut s0) = fresh.take_result_and_state();
        let pre_ok = o0.is_empty() && bundle_digest(&s0.parallel_take_bundle(BundleRetention::Reverts)) == bundle_digest(&Default::default());
        let sched = Scheduler::new_with_runtime_config(cfg, env, Arc::new(block.txs.clone()), ParallelState::new(Arc::new(world.db.clone_data()), true, false), None, grevm_config(&rc));
        let driver = if driven { Some(Driver::new(callers, Box::new(RandomWalk { rng: crng.fork(), stay: crng.range(0, 70) }), 200000)) } else { None };
        if let Some(d) = &driver { d.install(); }
        let results: Vec<Result<(), String>> = std::thread::scope(|sc| {
            let hs: Vec<_> = (0..callers).map(|c| {
                let sched = &sched;
                let e = entries[c];
                sc.spawn(move || {
                    let _t = grevm::verif::thread_begin("caller");
                    if successive { for _ in 0..(c * 40) { grevm::verif::p0("once_delay"); } }
                    grevm::verif::p2("once_call", c as i64, e as i64);
                    let r = match e { 0 => sched.execute(), 1 => sched.parallel_execute(Some(2)), _ => sched.fallback_sequential() };
                    let r = r.map_err(|e| format!("{}|{:?}", e.txid, e.error));
                    grevm::verif::p2("once_ret", c as i64, r.is_ok() as i64);
                    r
                })
            }).collect();
            hs.into_iter()
                .map(|h| {
                    h.join().unwrap_or_else(|p| {
                        let msg = p.downcast_ref::<String>().cloned().or_else(|| p.downcast_ref::<&str>().map(|s| s.to_string())).unwrap_or_else(|| "panic".into());
                        Err(format!("PANIC:{msg}"))
                    })
                })
                .collect()
        });
        Driver::uninstall();
        let (outs, mut st) = sched.take_result_and_state();
        let got = BlockResult { result: Ok(()), outcomes: outs.iter().map(outcome_digest).collect(), bundle: bundle_digest(&st.parallel_take_bundle(BundleRetention::Reverts)), ben_before: vec![] };
        let winners = results.iter().filter(|r| r.is_ok()).count();
        let once_msgs = results.iter().filter(|r| matches!(r, Err(m) if m.contains("can execute only once"))).count();
        let block_failed = orc.result.is_err();
        let same = orc.outcomes == got.outcomes && orc.bundle == got.bundle;
        writeln!(text, "# case {case} n={n} callers={callers} driven={driven} entries={entries:?} successive={successive} winners={winners} once_errors={once_msgs} oracle_failed={block_failed} same_as_one_execution={same} pre_ok={pre_ok} failure={:?}", driver.as_ref().and_then(|d| d.report().failure)).unwrap();
        if let Some(d) = &driver {
            for e in d.report().trace.iter().filter(|e| matches!(e.kind, "once_call" | "once_ret" | "run_once_enter" | "run_once_won" | "seq_exec")) {
                text.push_str(&trace_lines(std::slice::from_ref(e)));
            }
        }
        text.push_str("--\n");
        if winners != 1 || once_msgs != callers - 1 || !same || !pre_ok {
            bad_cases += 1;
        }
        {
            use std::io::Write as _;
            let mut f = std::fs::OpenOptions::new().append(true).open(out).unwrap();
            f.write_all(text.as_bytes()).unwrap();
            text.clear();
        }
        // a broken once-guard makes every racing case slow (double executions, torn-down runs): a
        // handful of failing cases is enough for the verdict
        if bad_cases >= 5 {
            break;
        }
    }
}
