//! Correspondence harness for the Reserve group (C13).
//! usage: reserve planner <seed> <count> <outdir>
//!        reserve journal <seed> <count> <outdir>
//!        reserve rule    <seed> <count> <outdir>
//!        reserve e2e     <seed> <count> <outdir>
//! Writes <outdir>/<kind>.in (one case per line; the extracted model's input) and
//! <outdir>/<kind>.impl (what the real component returned). Every random choice derives from <seed>.
use std::fs;
use verif_harness::{reserve::{e2e as reserve_e2e, gen_cases as reserve_gen}, rng::Rng};

/// Finding F13 (directed reproduction; scenario by an independent code-reading sub-agent). Prague,
/// reserve policy on. D is an EOA with balance 1_000_000 delegated (EIP-7702) to code that forwards its
/// whole balance to Y; Y holds U256::MAX. tx0: X calls D with 1 wei - revm's `transfer_loaded` debits D,
/// finds that the credit to Y overflows and returns OverflowPayment WITHOUT restoring D and without a
/// journal entry; the frame revert has nothing to undo. The reserve scans journal entries, finds no
/// debit of D, and lets tx0 stand; tx1 (D's own 21_000-gas transfer, fundable at block start) is then
/// skipped for lack of funds. C13 promises it would not be.
fn f13() -> bool {
    use grevm::{DelegatedSafetyConfig, TxExecutionOutcome};
    use revm::{context::{BlockEnv, CfgEnv, TxEnv}, primitives::{Address, B256, TxKind, U256, hardfork::SpecId}, state::Bytecode};
    use std::sync::Arc;
    use verif_harness::guard_common::{self as gc, MemDb};
    let ad = |n: u64| Address::from_word(B256::from(U256::from(n)));
    let (d, y, t, x) = (ad(900_000), ad(900_001), ad(910_000), ad(0x7001));
    let miner = Address::new([0xc0; 20]);
    let mut code = vec![0x5f, 0x5f, 0x5f, 0x5f, 0x47, 0x73];
    code.extend_from_slice(y.as_slice());
    code.extend_from_slice(&[0x62, 0x0f, 0x42, 0x40, 0xf1, 0x50, 0x00]);
    let mut db = MemDb { inline_code: true, ..Default::default() };
    db.put_code(t, U256::ZERO, 1, Bytecode::new_raw(code.into()));
    db.put_code(d, U256::from(1_000_000u64), 0, Bytecode::new_eip7702(t));
    db.put_eoa(y, U256::MAX, 0);
    db.put_eoa(x, U256::from(10u64).pow(U256::from(18)), 0);
    db.put_eoa(miner, U256::from(1), 0);
    let txs = vec![
        TxEnv { caller: x, kind: TxKind::Call(d), value: U256::from(1), gas_limit: 400_000, gas_price: 1, nonce: 0, chain_id: Some(1), ..Default::default() },
        TxEnv { caller: d, kind: TxKind::Call(x), gas_limit: 21_000, gas_price: 1, nonce: 0, chain_id: Some(1), ..Default::default() },
    ];
    let cfg = CfgEnv::new_with_spec(SpecId::PRAGUE);
    let block = BlockEnv { beneficiary: miner, number: U256::from(10), ..Default::default() };
    let (dba, txa) = (Arc::new(db), Arc::new(txs));
    let mut reproduced = false;
    for workers in [0usize, 3] {
        let (outs, _bundle) = gc::run_grevm(&dba, &cfg, &block, &txa, None, DelegatedSafetyConfig { forbid_delegated_create: false, reserve_delegated_balance: true }, workers).expect("grevm");
        let t0 = format!("{:?}", outs[0]);
        let t1 = format!("{:?}", outs[1]);
        let stood = matches!(&outs[0], TxExecutionOutcome::Executed(r) if r.is_success());
        let skipped = t1.contains("LackOfFundForMaxFee");
        println!("F13 workers={workers} tx0_stands_as_success={} tx1_skipped_for_lack_of_funds={} tx0={} tx1={}", stood as u8, skipped as u8, &t0[..t0.len().min(120)], &t1[..t1.len().min(120)]);
        reproduced |= stood && skipped;
    }
    reproduced
}

fn main() {
    let a: Vec<String> = std::env::args().collect();
    if a[1] == "f13" {
        std::process::exit(if f13() { 10 } else { 0 });
    }
    let (kind, seed, count, outdir) =
        (a[1].as_str(), a[2].parse::<u64>().unwrap(), a[3].parse::<u64>().unwrap(), &a[4]);
    let mut rng = Rng::new(seed ^ 0xC13);
    let (mut inp, mut out) = (String::new(), String::new());
    for i in 0..count {
        let mut case_rng = rng.fork();
        match kind {
            "planner" => reserve_gen::planner_case(&mut case_rng, i, &mut inp, &mut out),
            "journal" => reserve_gen::journal_case(&mut case_rng, i, &mut inp, &mut out),
            "rule" => reserve_gen::rule_case(&mut case_rng, i, &mut inp, &mut out),
            "e2e" => reserve_e2e::e2e_case(&mut case_rng, i, &mut inp, &mut out),
            k => panic!("unknown kind {k}"),
        }
        inp.push('\n');
        out.push('\n');
    }
    fs::create_dir_all(outdir).unwrap();
    fs::write(format!("{outdir}/{kind}.in"), inp).unwrap();
    fs::write(format!("{outdir}/{kind}.impl"), out).unwrap();
}
