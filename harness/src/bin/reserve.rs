//! Correspondence harness for the Reserve group (C13).
//! usage: reserve planner <seed> <count> <outdir>
//!        reserve journal <seed> <count> <outdir>
//!        reserve rule    <seed> <count> <outdir>
//!        reserve e2e     <seed> <count> <outdir>
//! Writes <outdir>/<kind>.in (one case per line; the extracted model's input) and
//! <outdir>/<kind>.impl (what the real component returned). Every random choice derives from <seed>.
use std::fs;
use verif_harness::{reserve::{e2e as reserve_e2e, gen_cases as reserve_gen}, rng::Rng};

fn main() {
    let a: Vec<String> = std::env::args().collect();
    let (kind, seed, count, outdir) =
        (a[1].as_str(), a[2].parse::<u64>().unwrap(), a[3].parse::<u64>().unwrap(), &a[4]);
    let mut rng = Rng::new(seed ^ 0xC13);
    let (mut inp, mut out) = (String::new(), String::new());
    for i in 0..count {
        let mut case_rng = rng.fork();
        match kind {
            "planner" => reserve_gen::planner_case(&mut case_rng, i, &mut inp, &mut out),
            "journal" => reserve_gen::journal_case(&mut case_rng, i, &mut inp, &mut out),
            "rule" => reserve_gen::rule_case(&mut case_rng, i, &mut inp, &mut out),
            "e2e" => reserve_e2e::e2e_case(&mut case_rng, i, &mut inp, &mut out),
            k => panic!("unknown kind {k}"),
        }
        inp.push('\n');
        out.push('\n');
    }
    fs::create_dir_all(outdir).unwrap();
    fs::write(format!("{outdir}/{kind}.in"), inp).unwrap();
    fs::write(format!("{outdir}/{kind}.impl"), out).unwrap();
}
