fn main() { println!("hook active: {}", grevm::verif::active()); }
