//! C17 correspondence: the real WaitSlot (through grevm::verif::objects::WaitSlotV) with one waiter
//! and 1-2 notifiers under the deterministic driver; one trace per schedule, separated by "--".
//! usage: waitobj <seed> <count> <outfile>
use grevm::verif::objects::WaitSlotV;
use std::{
    fmt::Write as _,
    sync::{Arc, atomic::{AtomicBool, Ordering}},
    time::Duration,
};
use verif_harness::{
    driver::{Driver, Pct, RandomWalk, Strategy, trace_lines},
    rng::Rng,
};

fn main() {
    let a: Vec<String> = std::env::args().collect();
    let (seed, count, out) = (a[1].parse::<u64>().unwrap(), a[2].parse::<u64>().unwrap(), &a[3]);
    let mut rng = Rng::new(seed);
    let mut text = String::new();
    for case in 0..count {
        let mut crng = rng.fork();
        let producers = crng.range(1, 2) as usize;
        let rounds = crng.range(1, 2);
        let reblock = crng.chance(1, 3);
        let early = crng.chance(1, 3); // a producer may run before the waiter registered
        let strat: Box<dyn Strategy> = if crng.chance(1, 3) { Box::new(Pct::new(crng.fork(), 2, 30)) } else { Box::new(RandomWalk { rng: crng.fork(), stay: crng.range(10, 80) }) };
        let driver = Driver::new(1 + producers + reblock as usize, strat, 5000);
        let slot = Arc::new(WaitSlotV::new());
        let blocked = Arc::new(AtomicBool::new(true));
        driver.install();
        std::thread::scope(|sc| {
            let (s1, b1) = (slot.clone(), blocked.clone());
            sc.spawn(move || {
                let _t = grevm::verif::thread_begin("waiter");
                if early {
                    grevm::verif::p0("ws_delay");
                    grevm::verif::p0("ws_delay");
                }
                s1.register_current_thread();
                for _ in 0..rounds {
                    // like the coordinator loops: wait until the predicate is unblocked
                    while b1.load(Ordering::Acquire) {
                        s1.wait_while(Duration::from_secs(3600), || b1.load(Ordering::Acquire));
                    }
                    grevm::verif::p0("ws_round_done");
                }
            });
            for p in 0..producers {
                let (s2, b2) = (slot.clone(), blocked.clone());
                sc.spawn(move || {
                    let _t = grevm::verif::thread_begin("producer");
                    for r in 0..rounds {
                        if r > 0 {
                            grevm::verif::p1("ws_again", p as i64);
                        }
                        b2.store(false, Ordering::Release);
                        grevm::verif::p1("ws_unblock", p as i64);
                        s2.notify();
                        grevm::verif::p1("ws_notified", p as i64);
                    }
                });
            }
            if reblock {
                let (s3, b3) = (slot.clone(), blocked.clone());
                sc.spawn(move || {
                    let _t = grevm::verif::thread_begin("reblocker");
                    grevm::verif::p0("ws_delay");
                    // only re-block while a producer round is still to come, otherwise the waiter
                    // would (correctly) sleep forever and the run could not end
                    b3.store(true, Ordering::Release);
                    grevm::verif::p0("ws_reblock");
                    b3.store(false, Ordering::Release);
                    grevm::verif::p1("ws_unblock", 9);
                    s3.notify();
                    grevm::verif::p1("ws_notified", 9);
                });
            }
        });
        Driver::uninstall();
        let rep = driver.report();
        writeln!(text, "# case {case} producers={producers} rounds={rounds} reblock={reblock} early={early} failure={:?}", rep.failure).unwrap();
        text.push_str(&trace_lines(&rep.trace));
        text.push_str("--\n");
    }
    std::fs::write(out, text).unwrap();
}
