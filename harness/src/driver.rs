//! Cooperative deterministic driver (DESIGN 4.2): exactly one registered thread runs between two
//! hook points, so the logged event order is the real order and a run is a function of
//! (input, strategy, seed). Detects deadlock (nobody runnable), stall (progress would need a
//! `park_timeout` to expire) and step-budget exhaustion (livelock suspicion).
use crate::rng::Rng;
use grevm::verif::{Ev, Hook};
use std::{
    collections::HashMap,
    sync::{Arc, Condvar, Mutex},
    thread::{Thread, ThreadId},
    time::Duration,
};

#[derive(Clone, Copy, Debug, PartialEq, Eq)]
pub enum TState {
    Runnable,
    /// saw a locked mutex at step count `s`; eligible again once some thread has made a step
    Blocked(u64),
    Parked,
    Finished,
}

#[derive(Clone, Debug)]
pub struct ThreadInfo {
    pub role: &'static str,
    pub state: TState,
    pub token: bool,
    pub spin: u32,
    pub steps: u64,
    pub panicked: bool,
}

#[derive(Clone, Debug)]
pub struct TraceEv {
    pub tid: i64,
    pub kind: &'static str,
    pub a: [i64; 6],
}

/// Scheduling strategy: choose the next thread among `runnable` (never empty).
pub trait Strategy: Send {
    fn pick(&mut self, runnable: &[usize], cur: Option<usize>, threads: &[ThreadInfo], last: Option<&TraceEv>) -> usize;
}

/// Seeded random walk; keeps the current thread with probability `stay`/100, de-prioritises spinners.
pub struct RandomWalk {
    pub rng: Rng,
    pub stay: u64,
}
impl Strategy for RandomWalk {
    fn pick(&mut self, runnable: &[usize], cur: Option<usize>, threads: &[ThreadInfo], _last: Option<&TraceEv>) -> usize {
        if let Some(c) = cur {
            if runnable.contains(&c) && threads[c].spin < 2 && self.rng.below(100) < self.stay {
                return c;
            }
        }
        let calm: Vec<usize> = runnable.iter().copied().filter(|&t| threads[t].spin < 2).collect();
        if !calm.is_empty() && self.rng.below(10) < 9 {
            return *self.rng.pick(&calm);
        }
        *self.rng.pick(runnable)
    }
}

/// Random walk with stragglers: at `freeze_at[k]` (a step number) the worker that is running then is
/// frozen (not scheduled while anybody else can run calmly) for `duration[k]` steps. Models a
/// transaction execution / validation that is slow relative to everything else.
pub struct Straggler {
    pub inner: RandomWalk,
    pub freeze_at: Vec<u64>,
    pub duration: Vec<u64>,
    pub step: u64,
    pub frozen: Vec<(usize, u64)>,
    /// slow-database mode: a worker that reports a database fetch (`db_*`), or that is about to
    /// validate a transaction it has claimed (`val_enter`), is frozen with
    /// probability 1/`db_one_in` for a random number of steps up to `db_max`
    pub db_one_in: u64,
    pub db_max: u64,
    /// slow-writer mode: the trigger events are the publications of an attempt (`publish`,
    /// `unpublish`, `mark_est`) instead: a worker is frozen between two of its publications
    pub mid_publish: bool,
    /// slow-writer mode: (thread, multi-version reads other threads may still perform before the
    /// writer resumes) - the gap between two publications is measured in reader progress, not steps
    pub gap: Vec<(usize, u64)>,
    /// targeted slow-writer: freeze the worker that performs the `at.1`-th publication (counted
    /// from 0 over all attempts) of transaction `at.0` until the other threads have performed `at.2`
    /// multi-version reads
    pub at: Option<(i64, u64, u64)>,
    pub publications: u64,
}
impl Straggler {
    pub fn slow_writer_at(rng: Rng, tx: i64, ith: u64, reads: u64) -> Self {
        Straggler { at: Some((tx, ith, reads)), db_one_in: u64::MAX, ..Self::slow_writer(rng, 1, 1) }
    }
    pub fn slow_db(mut rng: Rng, one_in: u64, max: u64) -> Self {
        let stay = rng.range(20, 85);
        Straggler { inner: RandomWalk { rng, stay }, freeze_at: Vec::new(), duration: Vec::new(), step: 0, frozen: Vec::new(), db_one_in: one_in, db_max: max, mid_publish: false, gap: Vec::new(), at: None, publications: 0 }
    }
    pub fn slow_writer(rng: Rng, one_in: u64, max: u64) -> Self {
        Straggler { mid_publish: true, ..Self::slow_db(rng, one_in, max) }
    }
    pub fn new(mut rng: Rng, n: usize, horizon: u64) -> Self {
        let freeze_at = (0..n).map(|_| rng.below(horizon.max(1))).collect();
        let duration = (0..n).map(|_| 20 + rng.below(horizon.max(1))).collect();
        let stay = rng.range(20, 85);
        Straggler { inner: RandomWalk { rng, stay }, freeze_at, duration, step: 0, frozen: Vec::new(), db_one_in: 0, db_max: 0, mid_publish: false, gap: Vec::new(), at: None, publications: 0 }
    }
}
impl Strategy for Straggler {
    fn pick(&mut self, runnable: &[usize], cur: Option<usize>, threads: &[ThreadInfo], last: Option<&TraceEv>) -> usize {
        self.step += 1;
        let step = self.step;
        for k in 0..self.freeze_at.len() {
            if self.freeze_at[k] == step {
                if let Some(c) = cur {
                    if threads[c].role == "worker" {
                        self.frozen.push((c, step + self.duration[k]));
                    }
                }
            }
        }
        if self.db_one_in > 0 {
            if let Some(ev) = last {
                if let Some((tx, ith, reads)) = self.at {
                    if matches!(ev.kind, "publish" | "unpublish" | "mark_est") && ev.tid >= 0 && ev.a[0] == tx {
                        if self.publications == ith && threads[ev.tid as usize].role == "worker" {
                            self.frozen.push((ev.tid as usize, step + 400));
                            self.gap.push((ev.tid as usize, reads));
                        }
                        self.publications += 1;
                    }
                }
                let trigger = if self.mid_publish { matches!(ev.kind, "publish" | "unpublish" | "mark_est") } else { ev.kind.starts_with("db_") || ev.kind == "val_enter" };
                if trigger && self.at.is_none() && ev.tid >= 0 && threads[ev.tid as usize].role == "worker" && self.inner.rng.below(self.db_one_in) == 0 {
                    let d = 10 + self.inner.rng.below(self.db_max.max(1));
                    self.frozen.push((ev.tid as usize, step + d));
                    if self.mid_publish && self.inner.rng.below(2) == 0 {
                        let reads = 1 + self.inner.rng.below(8);
                        self.gap.push((ev.tid as usize, reads));
                    }
                }
                if self.mid_publish && ev.kind == "mv_read" {
                    // a frozen writer resumes as soon as the others have done its quota of reads
                    for g in self.gap.iter_mut() {
                        if g.0 as i64 != ev.tid {
                            g.1 = g.1.saturating_sub(1);
                        }
                    }
                    let done: Vec<usize> = self.gap.iter().filter(|g| g.1 == 0).map(|g| g.0).collect();
                    self.gap.retain(|g| g.1 > 0);
                    self.frozen.retain(|(t, _)| !done.contains(t));
                }
            }
        }
        self.frozen.retain(|&(_, until)| until > step);
        if !self.gap.is_empty() {
            let frozen = &self.frozen;
            self.gap.retain(|g| frozen.iter().any(|(t, _)| *t == g.0));
        }
        let pool: Vec<usize> = runnable.iter().copied().filter(|t| !self.frozen.iter().any(|(f, _)| f == t)).collect();
        // everybody else spinning or blocked: the straggler is the only one that can make progress
        if pool.is_empty() || pool.iter().all(|&t| threads[t].spin >= 3) {
            return self.inner.pick(runnable, cur, threads, last);
        }
        let cur = cur.filter(|c| pool.contains(c));
        self.inner.pick(&pool, cur, threads, last)
    }
}

/// PCT-style: random distinct priorities, `d` change points at random step numbers.
pub struct Pct {
    pub rng: Rng,
    pub floor: u64,
    pub prio: Vec<u64>,
    pub change_at: Vec<u64>,
    pub step: u64,
}
impl Pct {
    pub fn new(mut rng: Rng, d: usize, horizon: u64) -> Self {
        let change_at = (0..d).map(|_| rng.below(horizon.max(1))).collect();
        Pct { rng, floor: 1_000_000, prio: Vec::new(), change_at, step: 0 }
    }
}
impl Strategy for Pct {
    fn pick(&mut self, runnable: &[usize], _cur: Option<usize>, threads: &[ThreadInfo], _last: Option<&TraceEv>) -> usize {
        while self.prio.len() < threads.len() {
            let p = 2_000_000 + self.rng.below(1_000_000);
            self.prio.push(p);
        }
        self.step += 1;
        // spinners would starve everybody under strict priorities: demote a thread that spins
        for &t in runnable {
            if threads[t].spin >= 3 {
                self.floor -= 1;
                self.prio[t] = self.floor;
            }
        }
        let best = *runnable.iter().max_by_key(|&&t| self.prio[t]).unwrap();
        if self.change_at.contains(&self.step) {
            self.floor -= 1;
            self.prio[best] = self.floor;
        }
        best
    }
}

/// Follow waypoints "(role-or-any, kind, a0)": keep running the thread that can reach the waypoint;
/// when the script is exhausted fall back to `rest`.
pub struct Waypoints {
    pub script: Vec<Waypoint>,
    pub pos: usize,
    pub rest: Box<dyn Strategy>,
    pub hold: Option<usize>,
}
#[derive(Clone, Debug)]
pub struct Waypoint {
    /// run threads of this role ("" = any) ...
    pub role: &'static str,
    /// ... until one reports this kind with a[0] == a0 (a0 = -2 matches anything)
    pub kind: &'static str,
    pub a0: i64,
    /// then keep that thread paused (true) until a later waypoint names `resume`
    pub pause: bool,
}
impl Strategy for Waypoints {
    fn pick(&mut self, runnable: &[usize], cur: Option<usize>, threads: &[ThreadInfo], last: Option<&TraceEv>) -> usize {
        // did the last event satisfy the current waypoint?
        if self.pos < self.script.len() {
            let w = &self.script[self.pos];
            if let Some(ev) = last {
                let role_ok = w.role.is_empty() || (ev.tid >= 0 && threads[ev.tid as usize].role == w.role);
                if role_ok && ev.kind == w.kind && (w.a0 == -2 || ev.a[0] == w.a0) {
                    if w.pause {
                        self.hold = Some(ev.tid as usize);
                    }
                    self.pos += 1;
                }
            }
        }
        let allowed: Vec<usize> = runnable.iter().copied().filter(|t| Some(*t) != self.hold || self.pos >= self.script.len()).collect();
        let pool: &[usize] = if allowed.is_empty() { runnable } else { &allowed };
        if self.pos < self.script.len() {
            let w = &self.script[self.pos];
            let want: Vec<usize> = pool.iter().copied().filter(|&t| w.role.is_empty() || threads[t].role == w.role).collect();
            if !want.is_empty() {
                if let Some(c) = cur {
                    if want.contains(&c) && threads[c].spin < 3 {
                        return c;
                    }
                }
                return self.rest.pick(&want, cur, threads, last);
            }
        }
        self.rest.pick(pool, cur, threads, last)
    }
}

#[derive(Clone, Debug, Default)]
pub struct RunReport {
    pub trace: Vec<TraceEv>,
    pub failure: Option<String>,
    pub steps: u64,
    pub threads: Vec<(String, u64, bool)>,
    pub timeouts_used: u64,
}

struct Inner {
    expected: usize,
    threads: Vec<ThreadInfo>,
    by_os: HashMap<ThreadId, usize>,
    current: Option<usize>,
    started: bool,
    trace: Vec<TraceEv>,
    strategy: Box<dyn Strategy>,
    steps: u64,
    epoch: u64,
    max_steps: u64,
    failure: Option<String>,
    free: bool,
    timeouts_used: u64,
    log: bool,
    idle_switches: u64,
    failed_at: Option<std::time::Instant>,
}

/// Real time a failed run may keep going before it is torn down.
pub const KILL_AFTER: Duration = Duration::from_secs(12);

pub struct Driver {
    inner: Mutex<Inner>,
    cv: Condvar,
}

impl Driver {
    pub fn new(expected: usize, strategy: Box<dyn Strategy>, max_steps: u64) -> Arc<Self> {
        Arc::new(Driver {
            inner: Mutex::new(Inner {
                expected,
                threads: Vec::new(),
                by_os: HashMap::new(),
                current: None,
                started: false,
                trace: Vec::new(),
                strategy,
                steps: 0,
                epoch: 0,
                max_steps,
                failure: None,
                free: false,
                timeouts_used: 0,
                log: true,
                idle_switches: 0,
                failed_at: None,
            }),
            cv: Condvar::new(),
        })
    }

    pub fn install(self: &Arc<Self>) {
        grevm::verif::set_hook(Some(self.clone() as Arc<dyn Hook>));
    }

    pub fn uninstall() {
        grevm::verif::set_hook(None);
    }

    pub fn report(&self) -> RunReport {
        let g = self.inner.lock().unwrap_or_else(|e| e.into_inner());
        RunReport {
            trace: g.trace.clone(),
            failure: g.failure.clone(),
            steps: g.steps,
            threads: g.threads.iter().map(|t| (t.role.to_owned(), t.steps, t.panicked)).collect(),
            timeouts_used: g.timeouts_used,
        }
    }

    /// Renumber threads by (role rank, arrival) so that indices do not depend on OS start order.
    fn canonicalise(g: &mut Inner) {
        let rank = |r: &str| match r {
            "finality" => 0,
            "commit" => 1,
            "worker" => 2,
            _ => 3,
        };
        let mut order: Vec<usize> = (0..g.threads.len()).collect();
        order.sort_by_key(|&i| (rank(g.threads[i].role), i));
        let mut newidx = vec![0usize; order.len()];
        for (n, &o) in order.iter().enumerate() {
            newidx[o] = n;
        }
        g.threads = order.iter().map(|&o| g.threads[o].clone()).collect();
        for v in g.by_os.values_mut() {
            *v = newidx[*v];
        }
        g.trace.retain(|e| e.kind != "thread_begin");
        for (n, t) in g.threads.iter().enumerate() {
            let _ = t;
            g.trace.push(TraceEv { tid: n as i64, kind: "thread_begin", a: [-1; 6] });
        }
    }

    fn me(g: &Inner) -> Option<usize> {
        g.by_os.get(&std::thread::current().id()).copied()
    }

    fn runnable(g: &Inner) -> Vec<usize> {
        g.threads
            .iter()
            .enumerate()
            .filter(|(_, t)| {
                match t.state {
                        TState::Runnable => true,
                        TState::Blocked(e) => e < g.steps,
                        TState::Parked => t.token,
                    TState::Finished => false,
                }
            })
            .map(|(i, _)| i)
            .collect()
    }

    fn fail(g: &mut Inner, why: String) {
        if g.failure.is_none() {
            g.failure = Some(why);
            g.failed_at = Some(std::time::Instant::now());
        }
        g.free = true;
        // the threads now run free, possibly for ever: stop recording
        g.log = false;
    }

    /// After a failure the real code gets `KILL_AFTER` of real time to finish by itself (stall
    /// timeouts included). A run that is still going then is a genuine hang: every thread that
    /// reaches a hook panics, the scheduler's panic guard cancels the others, and the run ends.
    fn kill_if_abandoned(g: &Inner) -> bool {
        g.failed_at.is_some_and(|t| t.elapsed() > KILL_AFTER) && !std::thread::panicking()
    }

    /// Wait until `me` is current (or the run went free). A real-time watchdog turns a driver hang
    /// (the granted thread blocked on something the driver does not know about) into a failure.
    fn wait_turn<'a>(&'a self, mut g: std::sync::MutexGuard<'a, Inner>, me: usize) -> std::sync::MutexGuard<'a, Inner> {
        let mut seen = (g.steps, g.idle_switches, g.current);
        let mut stale = 0;
        while g.current != Some(me) && !g.free {
            let (ng, to) = self.cv.wait_timeout(g, Duration::from_millis(500)).unwrap_or_else(|e| e.into_inner());
            g = ng;
            if to.timed_out() {
                let now = (g.steps, g.idle_switches, g.current);
                if now == seen {
                    stale += 1;
                    if stale >= 40 {
                        let cur = g.current;
                        let dump: Vec<String> = g.threads.iter().enumerate().map(|(i, t)| format!("{i}:{}:{:?}:tok={}", t.role, t.state, t.token)).collect();
                        let last: Vec<String> = g.trace.iter().rev().take(8).map(|e| format!("{} {} {:?}", e.tid, e.kind, e.a)).collect();
                        let why = format!("driver hang: current={cur:?} threads={dump:?} last events (newest first)={last:?}");
                        Self::fail(&mut g, why);
                        self.cv.notify_all();
                    }
                } else {
                    seen = now;
                    stale = 0;
                }
            }
        }
        g
    }

    /// Hand the token to somebody (possibly `me`), then wait until `me` holds it again.
    fn switch<'a>(&'a self, mut g: std::sync::MutexGuard<'a, Inner>, me: usize, _me_ok: bool) -> std::sync::MutexGuard<'a, Inner> {
        loop {
            if g.free {
                return g;
            }
            g.idle_switches += 1;
            if g.idle_switches > 50 * (g.threads.len() as u64 + 1) {
                let why = format!("deadlock: threads only wait for each other's mutexes at step {}", g.steps);
                Self::fail(&mut g, why);
                self.cv.notify_all();
                return g;
            }
            let cand = Self::runnable(&g);
            if cand.is_empty() {
                // nobody can run
                let parked: Vec<usize> = g.threads.iter().enumerate().filter(|(_, t)| t.state == TState::Parked).map(|(i, _)| i).collect();
                let unfinished = g.threads.iter().filter(|t| t.state != TState::Finished).count();
                if unfinished == 0 {
                    g.current = None;
                    self.cv.notify_all();
                    return g;
                }
                if g.threads.iter().any(|t| matches!(t.state, TState::Blocked(_))) {
                    // let mutex waiters re-check (bounded by idle_switches above)
                    g.steps += 1;
                    continue;
                }
                if !parked.is_empty() {
                    // the only way forward is a timeout of a parked coordinator: a stall (C05/C17)
                    let p = parked[0];
                    let why = format!("stall: progress needs park_timeout of thread {} ({}) to expire at step {}", p, g.threads[p].role, g.steps);
                    g.timeouts_used += 1;
                    g.trace.push(TraceEv { tid: p as i64, kind: "TIMEOUT", a: [-1; 6] });
                    if g.failure.is_none() {
                        g.failure = Some(why);
                    }
                    g.threads[p].token = true; // simulate the timer
                    continue;
                }
                let dump: Vec<String> = g.threads.iter().enumerate().map(|(i, t)| format!("{i}:{}:{:?}:tok={}", t.role, t.state, t.token)).collect();
                let why = format!("deadlock: no runnable thread at step {} (me={me}) {dump:?}", g.steps);
                Self::fail(&mut g, why);
                self.cv.notify_all();
                return g;
            }
            let cur = g.current;
            let last = g.trace.last().cloned();
            let threads = g.threads.clone();
            let next = g.strategy.pick(&cand, cur, &threads, last.as_ref());
            if g.threads[next].state == TState::Parked {
                g.threads[next].token = false;
            }
            g.threads[next].state = TState::Runnable;
            if g.current != Some(next) {
                g.epoch += 1;
            }
            g.current = Some(next);
            if next == me {
                return g;
            }
            self.cv.notify_all();
            if g.threads[me].state == TState::Finished {
                return g;
            }
            g = self.wait_turn(g, me);
            if g.free {
                return g;
            }
            // we were granted the token
            match g.threads[me].state {
                TState::Runnable => return g,
                _ => {
                    g.threads[me].state = TState::Runnable;
                    return g;
                }
            }
        }
    }
}

impl Hook for Driver {
    fn point(&self, ev: Ev) {
        let mut g = self.inner.lock().unwrap_or_else(|e| e.into_inner());
        if Self::kill_if_abandoned(&g) {
            drop(g);
            panic!("verif driver: run abandoned {KILL_AFTER:?} after a liveness failure");
        }
        let me = Self::me(&g);
        let tid = me.map_or(-1, |m| m as i64);
        if g.log {
            g.trace.push(TraceEv { tid, kind: ev.kind, a: ev.a });
        }
        let Some(me) = me else { return };
        if g.free {
            return;
        }
        g.steps += 1;
        g.idle_switches = 0;
        g.threads[me].steps += 1;
        if ev.kind == "next_iter" {
            g.threads[me].spin += 1;
        } else if !matches!(ev.kind, "atomic" | "cur_load" | "fr_cur_load" | "fr_cur_ret" | "fr_cur_flag" | "fr_flag_load" | "dep_next_full" | "fin_check" | "ws_check1" | "ws_check2" | "ws_wake") {
            g.threads[me].spin = 0;
            // somebody made real progress: spinners may have work again
            for t in g.threads.iter_mut() {
                t.spin = t.spin.min(1);
            }
        }
        if g.steps > g.max_steps {
            let dump: Vec<String> = g.threads.iter().enumerate().map(|(i, t)| format!("{i}:{}:{:?}:tok={}", t.role, t.state, t.token)).collect();
            let why = format!("step budget {} exhausted (livelock suspected) threads={dump:?}", g.max_steps);
            Self::fail(&mut g, why);
            self.cv.notify_all();
            return;
        }
        let _g = self.switch(g, me, true);
    }

    fn note(&self, ev: Ev) {
        let mut g = self.inner.lock().unwrap_or_else(|e| e.into_inner());
        let tid = Self::me(&g).map_or(-1, |m| m as i64);
        if g.log {
            g.trace.push(TraceEv { tid, kind: ev.kind, a: ev.a });
        }
    }

    fn before_lock(&self, is_locked: &dyn Fn() -> bool) {
        loop {
            if !is_locked() {
                return;
            }
            let mut g = self.inner.lock().unwrap_or_else(|e| e.into_inner());
            let Some(me) = Self::me(&g) else {
                drop(g);
                std::thread::yield_now();
                continue;
            };
            if g.free {
                return; // the real lock() will block until the holder releases
            }
            let e = g.steps;
            g.threads[me].state = TState::Blocked(e);
            let _g = self.switch(g, me, false);
        }
    }

    fn park(&self, timeout: Duration) {
        let mut g = self.inner.lock().unwrap_or_else(|e| e.into_inner());
        let Some(me) = Self::me(&g) else {
            drop(g);
            std::thread::park_timeout(timeout);
            return;
        };
        if g.free {
            drop(g);
            std::thread::park_timeout(Duration::from_millis(20));
            return;
        }
        if g.threads[me].token {
            g.threads[me].token = false;
            g.trace.push(TraceEv { tid: me as i64, kind: "PARK", a: [1, -1, -1, -1, -1, -1] });
            return;
        }
        g.trace.push(TraceEv { tid: me as i64, kind: "PARK", a: [0, -1, -1, -1, -1, -1] });
        g.threads[me].state = TState::Parked;
        let _g = self.switch(g, me, false);
    }

    fn unpark(&self, thread: &Thread) {
        let mut g = self.inner.lock().unwrap_or_else(|e| e.into_inner());
        let me = Self::me(&g).map_or(-1, |m| m as i64);
        if let Some(&t) = g.by_os.get(&thread.id()) {
            g.threads[t].token = true;
            if g.log {
                g.trace.push(TraceEv { tid: me, kind: "UNPARK", a: [t as i64, -1, -1, -1, -1, -1] });
            }
        }
    }

    fn thread_begin(&self, role: &'static str) {
        let mut g = self.inner.lock().unwrap_or_else(|e| e.into_inner());
        let me = g.threads.len();
        g.threads.push(ThreadInfo { role, state: TState::Runnable, token: false, spin: 0, steps: 0, panicked: false });
        g.by_os.insert(std::thread::current().id(), me);
        g.trace.push(TraceEv { tid: me as i64, kind: "thread_begin", a: [-1; 6] });
        if g.free {
            return;
        }
        if !g.started {
            if g.threads.len() >= g.expected {
                g.started = true;
                Self::canonicalise(&mut g);
                let me = Self::me(&g).unwrap();
                // registration order depends on the OS: canonicalise by role so that thread ids
                // are stable (finality, commit, workers in spawn order is what grevm does, but
                // the *arrival* order is not deterministic) - the strategy only sees indices, so
                // sort indices by role name + arrival; arrival order among equal roles is
                // immaterial because equal-role threads are symmetric at this point.
                let _g = self.switch(g, me, true);
            } else {
                while !g.started && !g.free {
                    g = self.cv.wait(g).unwrap_or_else(|e| e.into_inner());
                }
                let me = Self::me(&g).unwrap();
                let _g = self.wait_turn(g, me);
            }
        } else {
            // late joiner: wait to be scheduled
            let _g = self.wait_turn(g, me);
        }
    }

    fn thread_end(&self, panicking: bool) {
        let mut g = self.inner.lock().unwrap_or_else(|e| e.into_inner());
        let Some(me) = Self::me(&g) else { return };
        g.threads[me].state = TState::Finished;
        g.threads[me].panicked = panicking;
        g.steps += 1; // locks held by this thread are released now: blocked threads may retry
        g.trace.push(TraceEv { tid: me as i64, kind: "thread_end", a: [panicking as i64, -1, -1, -1, -1, -1] });
        if g.free {
            return;
        }
        let _g = self.switch(g, me, false);
    }
}

pub fn trace_lines(trace: &[TraceEv]) -> String {
    let mut s = String::new();
    for e in trace {
        s.push_str(&format!("{} {}", e.tid, e.kind));
        for v in e.a {
            s.push_str(&format!(" {v}"));
        }
        s.push('\n');
    }
    s
}
