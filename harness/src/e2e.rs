//! End-to-end pieces: in-memory database with fault plan and hook points, tiny assembler and test
//! contracts, seeded block generator, in-order stock-revm oracle, grevm runner (driven or free).
use crate::{
    driver::{Driver, RunReport, Strategy},
    rng::Rng,
};
use alloy_evm::{EthEvm, Evm, precompiles::PrecompilesMap};
use grevm::{GrevmConfig, DelegatedSafetyConfig, ParallelState, ParallelTakeBundle, Scheduler, TxExecutionOutcome};
use revm::{Context, DatabaseCommit, DatabaseRef, MainBuilder, MainContext, handler::EthPrecompiles};
use revm_context::{
    either::Either,
    transaction::{Authorization, RecoveredAuthority, RecoveredAuthorization},
    BlockEnv, CfgEnv, TxEnv,
    result::{EVMError, ExecutionResult},
};
use revm_database::{BundleState, StateBuilder, states::bundle_state::BundleRetention};
use revm_inspector::NoOpInspector;
use revm_primitives::{Address, B256, Bytes, KECCAK_EMPTY, TxKind, U256, hardfork::SpecId, keccak256};
use revm_state::{AccountInfo, Bytecode};
use std::{
    collections::{BTreeMap, HashMap},
    fmt,
    sync::{Arc, Mutex},
};

// ------------------------------------------------------------------------------------------ DB

#[derive(Clone, Debug, PartialEq, Eq)]
pub struct DbErr(pub String);
impl fmt::Display for DbErr {
    fn fmt(&self, f: &mut fmt::Formatter<'_>) -> fmt::Result {
        write!(f, "dberr:{}", self.0)
    }
}
impl std::error::Error for DbErr {}
impl revm::database::DBErrorMarker for DbErr {}

#[derive(Clone, Debug, PartialEq, Eq, Hash)]
pub enum DbKey {
    Basic(Address),
    Storage(Address, U256),
    Code(B256),
    BlockHash(u64),
}

#[derive(Clone, Copy, Debug, PartialEq, Eq)]
pub enum FaultMode {
    Persistent,
    FailOnce,
    /// the database panics (payload `verif-db-panic:<key>`): C05 - the panic must reach the caller
    /// and every thread must finish without a stall timer
    Panic,
}

#[derive(Debug, Default)]
pub struct MemDb {
    pub accounts: HashMap<Address, AccountInfo>,
    pub storage: HashMap<(Address, U256), U256>,
    pub code: HashMap<B256, Bytecode>,
    /// fault plan: key -> mode; FailOnce entries are consumed (interior mutability)
    pub faults: Mutex<HashMap<DbKey, FaultMode>>,
    /// when true every database access is a hook point (a "slow database")
    pub points: bool,
    pub reads: Mutex<Vec<DbKey>>,
}

impl MemDb {
    fn fault(&self, key: DbKey) -> Result<(), DbErr> {
        self.reads.lock().unwrap().push(key.clone());
        let mut f = self.faults.lock().unwrap();
        match f.get(&key).copied() {
            Some(FaultMode::Persistent) => Err(DbErr(format!("{key:?}"))),
            Some(FaultMode::FailOnce) => {
                f.remove(&key);
                Err(DbErr(format!("{key:?}")))
            }
            Some(FaultMode::Panic) => {
                drop(f); // do not poison the fault table
                panic!("verif-db-panic:{key:?}")
            }
            None => Ok(()),
        }
    }
    pub fn clone_data(&self) -> MemDb {
        MemDb {
            accounts: self.accounts.clone(),
            storage: self.storage.clone(),
            code: self.code.clone(),
            faults: Mutex::new(self.faults.lock().unwrap().clone()),
            points: self.points,
            reads: Mutex::new(Vec::new()),
        }
    }
}

impl DatabaseRef for MemDb {
    type Error = DbErr;
    fn basic_ref(&self, address: Address) -> Result<Option<AccountInfo>, DbErr> {
        if self.points {
            grevm::verif::p1("db_basic", grevm::verif::intern(format!("B:{address:x}")));
        }
        self.fault(DbKey::Basic(address))?;
        Ok(self.accounts.get(&address).cloned())
    }
    fn code_by_hash_ref(&self, code_hash: B256) -> Result<Bytecode, DbErr> {
        if self.points {
            grevm::verif::p0("db_code");
        }
        self.fault(DbKey::Code(code_hash))?;
        Ok(self.code.get(&code_hash).cloned().unwrap_or_default())
    }
    fn storage_ref(&self, address: Address, index: U256) -> Result<U256, DbErr> {
        if self.points {
            grevm::verif::p1("db_storage", grevm::verif::intern(format!("S:{address:x}:{index:x}")));
        }
        self.fault(DbKey::Storage(address, index))?;
        let v = self.storage.get(&(address, index)).copied().unwrap_or_default();
        if self.points {
            // the value has been fetched; a commit may land before the caller inserts it
            grevm::verif::p1("db_storage_fetched", grevm::verif::intern(format!("S:{address:x}:{index:x}")));
        }
        Ok(v)
    }
    fn block_hash_ref(&self, number: u64) -> Result<B256, DbErr> {
        // no hook point here: grevm holds a map shard guard across this call
        self.fault(DbKey::BlockHash(number))?;
        Ok(keccak256(number.to_be_bytes()))
    }
}

// ---------------------------------------------------------------------------------- assembler

pub mod op {
    pub const STOP: u8 = 0x00;
    pub const ADD: u8 = 0x01;
    pub const MOD: u8 = 0x06;
    pub const ISZERO: u8 = 0x15;
    pub const BALANCE: u8 = 0x31;
    pub const CALLDATALOAD: u8 = 0x35;
    pub const EXTCODESIZE: u8 = 0x3b;
    pub const EXTCODEHASH: u8 = 0x3f;
    pub const SELFBALANCE: u8 = 0x47;
    pub const POP: u8 = 0x50;
    pub const MSTORE: u8 = 0x52;
    pub const SLOAD: u8 = 0x54;
    pub const SSTORE: u8 = 0x55;
    pub const JUMPI: u8 = 0x57;
    pub const JUMPDEST: u8 = 0x5b;
    pub const PUSH1: u8 = 0x60;
    pub const PUSH20: u8 = 0x73;
    pub const DUP1: u8 = 0x80;
    pub const DUP2: u8 = 0x81;
    pub const SWAP1: u8 = 0x90;
    pub const CREATE: u8 = 0xf0;
    pub const CALL: u8 = 0xf1;
    pub const RETURN: u8 = 0xf3;
    pub const REVERT: u8 = 0xfd;
    pub const INVALID: u8 = 0xfe;
    pub const SELFDESTRUCT: u8 = 0xff;
    pub const GAS: u8 = 0x5a;
    pub const COINBASE: u8 = 0x41;
}
use op::*;

/// sstore(a', sload(b) + 1) where a' = calldata[2] != 0 ? sload(a) : a;  a = calldata[0], b = calldata[1]
pub fn contract_mix() -> Vec<u8> {
    let mut c = vec![PUSH1, 0x20, CALLDATALOAD, SLOAD, PUSH1, 1, ADD, PUSH1, 0, CALLDATALOAD, PUSH1, 0x40, CALLDATALOAD, ISZERO];
    let dest = (c.len() + 4) as u8; // PUSH1 dest JUMPI SLOAD JUMPDEST
    c.extend_from_slice(&[PUSH1, dest, JUMPI, SLOAD, JUMPDEST, SSTORE, STOP]);
    c
}

/// sstore(0, balance(calldata[0]) + extcodesize(calldata[0])) ; probes another account
pub fn contract_probe() -> Vec<u8> {
    vec![PUSH1, 0, CALLDATALOAD, BALANCE, PUSH1, 0, CALLDATALOAD, EXTCODESIZE, ADD, PUSH1, 0, SSTORE, STOP]
}

/// sstore(1, balance(coinbase)) ; reads the fee recipient
pub fn contract_coinbase_probe() -> Vec<u8> {
    vec![COINBASE, BALANCE, PUSH1, 1, SSTORE, STOP]
}

/// PUSH20 heir; SELFDESTRUCT
pub fn contract_selfdestruct(heir: Address) -> Vec<u8> {
    let mut c = vec![PUSH20];
    c.extend_from_slice(heir.as_slice());
    c.push(SELFDESTRUCT);
    c
}

/// forwards its call value to calldata[0] (CALL with all gas), then sstore(2, success)
pub fn contract_forward() -> Vec<u8> {
    // CALL(gas, addr, value, in_off, in_size, out_off, out_size)
    vec![
        PUSH1, 0, PUSH1, 0, PUSH1, 0, PUSH1, 0, // out_size out_off in_size in_off
        0x34, // CALLVALUE
        PUSH1, 0, CALLDATALOAD, // addr
        GAS, CALL, PUSH1, 2, SSTORE, STOP,
    ]
}

/// reverts after writing slot 3 (the write must not leak)
pub fn contract_revert() -> Vec<u8> {
    vec![PUSH1, 7, PUSH1, 3, SSTORE, PUSH1, 0, PUSH1, 0, REVERT]
}

/// CREATE a child whose runtime code is `STOP` and whose constructor stores slot 0 := 1;
/// sstore(4, child address)
pub fn contract_factory() -> Vec<u8> {
    // init code: PUSH1 1 PUSH1 0 SSTORE  PUSH1 1 PUSH1 0 RETURN (returns 1 byte of memory = 0x00 = STOP)
    let init: [u8; 10] = [PUSH1, 1, PUSH1, 0, SSTORE, PUSH1, 1, PUSH1, 0, RETURN];
    // store init code into memory with PUSH10 <init> PUSH1 0 MSTORE -> right-aligned in word: offset 22
    let mut c = vec![0x69]; // PUSH10
    c.extend_from_slice(&init);
    c.extend_from_slice(&[PUSH1, 0, MSTORE, PUSH1, 10, PUSH1, 22, PUSH1, 0, CREATE, PUSH1, 4, SSTORE, STOP]);
    c
}

pub fn word(v: u64) -> [u8; 32] {
    U256::from(v).to_be_bytes()
}
pub fn addr_word(a: Address) -> [u8; 32] {
    let mut w = [0u8; 32];
    w[12..].copy_from_slice(a.as_slice());
    w
}

// ------------------------------------------------------------------------------------- blocks

pub fn eoa(i: usize) -> Address {
    let mut b = [0u8; 20];
    b[0] = 0xE0;
    b[18] = (i >> 8) as u8;
    b[19] = i as u8;
    Address::from(b)
}
pub fn contract_addr(i: usize) -> Address {
    let mut b = [0u8; 20];
    b[0] = 0xC0;
    b[19] = i as u8;
    Address::from(b)
}
pub const MINER: Address = Address::new([0xBE; 20]);
/// an account that exists in the pre-state and is empty (EIP-161: a touch deletes it)
pub const MAXN: Address = Address::new([0x4d; 20]);
pub const EMPTY_MINER: Address = Address::new([0xBD; 20]);

#[derive(Clone, Debug)]
pub struct BlockSpec {
    pub spec: SpecId,
    pub disable_nonce_check: bool,
    pub basefee: u64,
    pub beneficiary: Address,
    pub txs: Vec<TxEnv>,
    pub descr: Vec<String>,
}

pub struct World {
    pub db: MemDb,
    pub mix: Address,
    pub probe: Address,
    pub cbprobe: Address,
    pub forward: Address,
    pub revert: Address,
    pub factory: Address,
    pub victims: Vec<Address>,
    pub n_eoa: usize,
}

fn put_contract(db: &mut MemDb, a: Address, code: Vec<u8>, balance: u64) {
    let bc = Bytecode::new_raw(Bytes::from(code));
    let h = bc.hash_slow();
    db.code.insert(h, bc.clone());
    db.accounts.insert(a, AccountInfo { balance: U256::from(balance), nonce: 1, code_hash: h, code: Some(bc), ..Default::default() });
}

pub fn make_world(n_eoa: usize, rng: &mut Rng) -> World {
    let mut db = MemDb::default();
    for i in 0..n_eoa {
        db.accounts.insert(eoa(i), AccountInfo { balance: U256::from(10u64).pow(U256::from(20)), nonce: 0, code_hash: KECCAK_EMPTY, code: None, ..Default::default() });
    }
    let w = World {
        mix: contract_addr(1),
        probe: contract_addr(2),
        cbprobe: contract_addr(3),
        forward: contract_addr(4),
        revert: contract_addr(5),
        factory: contract_addr(6),
        victims: vec![contract_addr(0x10), contract_addr(0x11)],
        n_eoa,
        db: MemDb::default(),
    };
    db.accounts.insert(EMPTY_MINER, AccountInfo::default());
    put_contract(&mut db, w.mix, contract_mix(), 0);
    put_contract(&mut db, w.probe, contract_probe(), 0);
    put_contract(&mut db, w.cbprobe, contract_coinbase_probe(), 0);
    put_contract(&mut db, w.forward, contract_forward(), 0);
    put_contract(&mut db, w.revert, contract_revert(), 0);
    put_contract(&mut db, w.factory, contract_factory(), 0);
    for (k, v) in w.victims.iter().enumerate() {
        put_contract(&mut db, *v, contract_selfdestruct(eoa(k % n_eoa.max(1))), 1000 + k as u64);
        db.storage.insert((*v, U256::from(5)), U256::from(7));
    }
    // some pre-existing mix storage so that indirect reads hit non-zero pointers
    for s in 0..4u64 {
        if rng.chance(1, 2) {
            db.storage.insert((w.mix, U256::from(s)), U256::from(rng.below(4)));
        }
    }
    World { db, ..w }
}

#[derive(Clone, Copy, Debug, Default)]
pub struct GenOpts {
    pub invalid: bool,
    pub destroy: bool,
    pub create: bool,
    pub beneficiary_roles: bool,
    pub shared_callers: bool,
    /// dependency-chain profile: mostly `mix` calls on 4 pre-populated slots, half of them with a
    /// data-dependent write location (write sets that change between incarnations)
    pub chain: bool,
    /// a third of the transactions read the fee recipient's balance (coinbase probe)
    pub cb: bool,
    /// wrong-nonce transactions are mostly invalid for a second reason too
    pub multi: bool,
    /// the fee recipient is an existing empty account in half of the blocks
    pub empty_ben: bool,
    /// Prague block with sponsored EIP-7702 authorisations (set / re-point / clear) and calls to
    /// the (possibly delegated) EOAs
    pub auth: bool,
    /// a sender whose state nonce is u64::MAX (revm rejects every transaction with that nonce)
    pub maxn: bool,
}

/// A conflict-heavy block: few slots, data-dependent slot choice, shared callers (nonce chains).
pub fn gen_block(rng: &mut Rng, n_txs: usize, opts: GenOpts) -> (World, BlockSpec) {
    let n_eoa = if opts.shared_callers { (n_txs / 2).max(1) } else { n_txs.max(1) };
    let mut world = make_world(n_eoa + 1, rng);
    if opts.chain {
        for s in 0..4u64 {
            world.db.storage.insert((world.mix, U256::from(s)), U256::from(rng.below(4)));
        }
    }
    if opts.maxn {
        world.db.accounts.insert(MAXN, AccountInfo { balance: U256::from(10u64).pow(U256::from(20)), nonce: u64::MAX, code_hash: KECCAK_EMPTY, code: None, ..Default::default() });
    }
    let specs = [SpecId::SHANGHAI, SpecId::CANCUN, SpecId::PRAGUE, SpecId::LONDON, SpecId::BERLIN];
    let spec = if rng.chance(2, 3) { SpecId::CANCUN } else { *rng.pick(&specs) };
    let spec = if opts.auth { SpecId::PRAGUE } else { spec };
    let basefee = if spec >= SpecId::LONDON { rng.below(3) } else { 0 };
    let beneficiary = if opts.empty_ben && rng.chance(1, 2) {
        // existing empty fee recipient: a zero reward still touches (and so deletes) it
        EMPTY_MINER
    } else if opts.beneficiary_roles && rng.chance(1, 3) {
        match rng.below(3) {
            0 => eoa(0),          // a sender
            1 => world.mix,       // a contract with storage
            _ => world.forward,
        }
    } else {
        MINER
    };
    let mut nonces: HashMap<Address, u64> = HashMap::new();
    let mut txs = Vec::new();
    let mut descr = Vec::new();
    for i in 0..n_txs {
        let caller = if opts.shared_callers { eoa(rng.below(n_eoa as u64) as usize) } else { eoa(i) };
        let nonce = *nonces.get(&caller).unwrap_or(&0);
        let gas_price = basefee as u128 + rng.below(3) as u128;
        let mut tx = TxEnv { caller, gas_limit: 300_000, gas_price, nonce, ..Default::default() };
        let kind = if opts.cb && rng.chance(1, 3) { 70 } else if opts.chain && rng.chance(5, 6) { 0 } else { rng.below(100) };
        let mut valid = true;
        if opts.auth && rng.chance(1, 4) {
            // EIP-7702: a sponsored authorisation that points an EOA (another sender) at the `mix`
            // contract, at the forwarder, or clears it, then calls that EOA with `mix` calldata: the
            // EOA runs `mix` on its own storage. A third of the tuples carry a stale nonce (ignored).
            let ai = rng.below(n_eoa as u64) as usize;
            let authority = eoa(ai);
            let target = match rng.below(4) { 0 => Address::ZERO, 1 => world.forward, _ => world.mix };
            let cur = *nonces.get(&authority).unwrap_or(&0);
            let ok = authority != caller && rng.chance(2, 3);
            let auth_nonce = if ok { cur } else { cur + 1 + rng.below(2) };
            if ok {
                nonces.insert(authority, cur + 1);
            }
            let (a, b, ind) = (rng.below(4), rng.below(4), rng.chance(1, 3) as u64);
            let mut data = Vec::new();
            data.extend_from_slice(&word(a));
            data.extend_from_slice(&word(b));
            data.extend_from_slice(&word(ind));
            tx.tx_type = 4;
            tx.kind = TxKind::Call(authority);
            tx.data = Bytes::from(data);
            tx.authorization_list = vec![Either::Right(RecoveredAuthorization::new_unchecked(
                Authorization { chain_id: U256::from(1), address: target, nonce: auth_nonce },
                RecoveredAuthority::Valid(authority),
            ))];
            descr.push(format!("auth {authority:x}->{target:x}#{auth_nonce}{} call a={a} b={b} ind={ind}", if ok { "" } else { "!" }));
        } else if opts.auth && rng.chance(1, 5) {
            // call an EOA that may carry a delegation by now
            let ai = rng.below(n_eoa as u64) as usize;
            let (a, b, ind) = (rng.below(4), rng.below(4), rng.chance(1, 3) as u64);
            let mut data = Vec::new();
            data.extend_from_slice(&word(a));
            data.extend_from_slice(&word(b));
            data.extend_from_slice(&word(ind));
            tx.kind = TxKind::Call(eoa(ai));
            tx.data = Bytes::from(data);
            descr.push(format!("call-eoa {:x} a={a} b={b} ind={ind}", eoa(ai)));
        } else if kind < 45 {
            let a = rng.below(4);
            let b = rng.below(4);
            let ind = if opts.chain { rng.chance(1, 2) as u64 } else { rng.chance(1, 3) as u64 };
            let mut data = Vec::new();
            data.extend_from_slice(&word(a));
            data.extend_from_slice(&word(b));
            data.extend_from_slice(&word(ind));
            tx.kind = TxKind::Call(world.mix);
            tx.data = Bytes::from(data);
            descr.push(format!("mix a={a} b={b} ind={ind}"));
        } else if kind < 60 {
            let to = eoa(rng.below(n_eoa as u64 + 1) as usize);
            tx.kind = TxKind::Call(to);
            tx.value = U256::from(rng.below(1000));
            tx.gas_limit = 21_000;
            descr.push(format!("transfer to {to:x}"));
        } else if kind < 68 {
            let target = match rng.below(4) {
                0 => eoa(rng.below(n_eoa as u64) as usize),
                1 => world.victims[0],
                2 => beneficiary,
                _ => world.mix,
            };
            tx.kind = TxKind::Call(world.probe);
            tx.data = Bytes::from(addr_word(target).to_vec());
            descr.push(format!("probe {target:x}"));
        } else if kind < 74 {
            tx.kind = TxKind::Call(world.cbprobe);
            descr.push("coinbase-probe".into());
        } else if kind < 80 {
            let to = eoa(rng.below(n_eoa as u64) as usize);
            tx.kind = TxKind::Call(world.forward);
            tx.value = U256::from(rng.below(50));
            tx.data = Bytes::from(addr_word(to).to_vec());
            descr.push(format!("forward to {to:x}"));
        } else if kind < 84 {
            tx.kind = TxKind::Call(world.revert);
            descr.push("revert".into());
        } else if kind < 90 && opts.destroy {
            let v = *rng.pick(&world.victims);
            tx.kind = TxKind::Call(v);
            descr.push(format!("selfdestruct {v:x}"));
        } else if kind < 94 && opts.create {
            tx.kind = TxKind::Call(world.factory);
            descr.push("factory".into());
        } else if kind < 97 && opts.create {
            tx.kind = TxKind::Create;
            tx.data = Bytes::from(vec![PUSH1, 1, PUSH1, 0, SSTORE, PUSH1, 1, PUSH1, 0, RETURN]);
            descr.push("create-tx".into());
        } else {
            let to = eoa(rng.below(n_eoa as u64) as usize);
            tx.kind = TxKind::Call(to);
            tx.value = U256::from(1);
            tx.gas_limit = 21_000;
            descr.push(format!("transfer1 to {to:x}"));
        }
        if opts.invalid && rng.chance(1, 6) {
            valid = false;
            match rng.below(6) {
                0 => {
                    tx.nonce = nonce + 1 + rng.below(2);
                    descr.last_mut().unwrap().push_str(" [nonce-high]");
                }
                1 => {
                    if nonce > 0 {
                        tx.nonce = nonce - 1;
                        descr.last_mut().unwrap().push_str(" [nonce-low]");
                    } else {
                        tx.gas_limit = 100;
                        descr.last_mut().unwrap().push_str(" [intrinsic-gas]");
                    }
                }
                2 => {
                    tx.value = U256::MAX / U256::from(2);
                    descr.last_mut().unwrap().push_str(" [lack-of-funds]");
                }
                3 => {
                    tx.gas_limit = 100;
                    descr.last_mut().unwrap().push_str(" [intrinsic-gas]");
                }
                4 => {
                    if basefee > 0 {
                        tx.gas_price = basefee as u128 - 1;
                        descr.last_mut().unwrap().push_str(" [fee-below-basefee]");
                    } else {
                        tx.caller = world.mix; // sender with code (EIP-3607)
                        tx.nonce = 1;
                        descr.last_mut().unwrap().push_str(" [sender-with-code]");
                    }
                }
                _ => {
                    tx.caller = world.mix;
                    tx.nonce = 1;
                    descr.last_mut().unwrap().push_str(" [sender-with-code]");
                }
            }
        }
        if opts.maxn && rng.chance(1, 5) {
            // nonce u64::MAX from a sender at nonce u64::MAX: invalid for revm without any database read
            // (NonceOverflowInTransaction, the last of the environment checks), unless an earlier
            // check of the same transaction fails first
            valid = false;
            tx.caller = MAXN;
            tx.nonce = u64::MAX;
            descr.last_mut().unwrap().push_str(" [nonce-max]");
            if basefee > 0 && rng.chance(1, 2) {
                tx.gas_price = basefee as u128 - 1;
                descr.last_mut().unwrap().push_str(" [+fee-below-basefee]");
            }
        }
        if opts.multi && !valid && tx.nonce != nonce && rng.chance(2, 3) {
            // a second, later-checked reason next to the wrong nonce: a speculative attempt (nonce
            // check off) rejects the transaction for THAT reason, in-order validation for the nonce
            tx.value = U256::MAX / U256::from(2);
            descr.last_mut().unwrap().push_str(" [+lack-of-funds]");
        }
        if valid {
            nonces.insert(caller, nonce + 1);
        }
        txs.push(tx);
    }
    let disable_nonce_check = false;
    (world, BlockSpec { spec, disable_nonce_check, basefee, beneficiary, txs, descr })
}

pub fn envs(b: &BlockSpec) -> (CfgEnv, BlockEnv) {
    let mut cfg = CfgEnv::new_with_spec(b.spec);
    cfg.disable_nonce_check = b.disable_nonce_check;
    let env = BlockEnv { beneficiary: b.beneficiary, basefee: b.basefee, number: U256::from(100u64), ..Default::default() };
    (cfg, env)
}

// ------------------------------------------------------------------------------------- oracle

#[derive(Clone, Debug)]
pub struct BlockResult {
    /// Ok or (txid, error digest)
    pub result: Result<(), (usize, String)>,
    pub outcomes: Vec<String>,
    pub bundle: String,
    /// oracle only: digest of the fee recipient's account just before each transaction
    pub ben_before: Vec<String>,
}

pub fn outcome_digest(o: &TxExecutionOutcome) -> String {
    match o {
        TxExecutionOutcome::Executed(r) => format!("X:{r:?}"),
        TxExecutionOutcome::Skipped(e) => format!("K:{e:?}"),
    }
}

pub fn err_digest<E: fmt::Debug>(e: &EVMError<E>) -> String {
    format!("{e:?}")
}

pub fn bundle_digest(b: &BundleState) -> String {
    let mut s = String::new();
    let st: BTreeMap<_, _> = b.state.iter().collect();
    for (a, acc) in st {
        let stg: BTreeMap<_, _> = acc.storage.iter().collect();
        s.push_str(&format!("A {a:x} info={:?} orig={:?} status={:?} storage={:?}\n", acc.info.as_ref().map(strip), acc.original_info.as_ref().map(strip), acc.status, stg));
    }
    let mut cs: Vec<_> = b.contracts.keys().collect();
    cs.sort();
    s.push_str(&format!("contracts={cs:?}\n"));
    for (i, blk) in b.reverts.iter().enumerate() {
        let m: BTreeMap<_, _> = blk.iter().map(|(a, r)| (a, r)).collect();
        for (a, r) in m {
            let stg: BTreeMap<_, _> = r.storage.iter().collect();
            s.push_str(&format!("R{i} {a:x} account={:?} prev_status={:?} wipe={} storage={:?}\n", r.account, r.previous_status, r.wipe_storage, stg));
        }
    }
    s.push_str(&format!("sizes state={} reverts={}\n", b.state_size, b.reverts_size));
    s
}

fn strip(i: &AccountInfo) -> (U256, u64, B256) {
    (i.balance, i.nonce, i.code_hash)
}

/// In-order stock revm: skip `EVMError::Transaction`, stop at any other error.
pub fn oracle(db: &MemDb, b: &BlockSpec) -> BlockResult {
    let (cfg, env) = envs(b);
    let spec = cfg.spec;
    let disable_nonce_check = cfg.disable_nonce_check;
    let state = StateBuilder::new().with_bundle_update().with_database_ref(db).build();
    let evm = Context::mainnet()
        .with_db(state)
        .with_cfg(cfg)
        .with_block(env)
        .build_mainnet_with_inspector(NoOpInspector {})
        .with_precompiles(PrecompilesMap::from_static(EthPrecompiles::new(spec).precompiles));
    let mut evm = EthEvm::new(evm, false);
    let mut outcomes = Vec::new();
    let mut result = Ok(());
    // in-order execution loads the fee recipient first only in grevm; C04's statement says "with the
    // fee recipient's account loaded up front", so the oracle does the same read
    if let Err(e) = db.basic_ref(b.beneficiary) {
        return BlockResult { result: Err((0, format!("Database({e:?})"))), outcomes, bundle: bundle_digest(&BundleState::default()), ben_before: vec![] };
    }
    let mut ben_before = Vec::new();
    for (i, tx) in b.txs.iter().enumerate() {
        let ben = revm::Database::basic(evm.db_mut(), b.beneficiary).ok().flatten();
        ben_before.push(match &ben {
            None => "acct:none".to_owned(),
            Some(i) => format!("acct:{:x}:{}:{:x}", i.balance, i.nonce, i.code_hash),
        });
        match evm.transact_raw(tx.clone()) {
            Ok(rs) => {
                evm.db_mut().commit(rs.state);
                outcomes.push(outcome_digest(&TxExecutionOutcome::Executed(rs.result)));
            }
            Err(EVMError::Transaction(t)) => outcomes.push(outcome_digest(&TxExecutionOutcome::Skipped(t))),
            Err(EVMError::Database(e)) => {
                result = Err((i, format!("Database({:?})", e.into_external_error())));
                break;
            }
            Err(e) => {
                result = Err((i, format!("{e:?}")));
                break;
            }
        }
    }
    evm.db_mut().merge_transitions(BundleRetention::Reverts);
    let bundle = evm.db_mut().take_bundle();
    BlockResult { result, outcomes, bundle: bundle_digest(&bundle), ben_before }
}

// --------------------------------------------------------------------------------------- grevm

#[derive(Clone, Debug)]
pub struct RunCfg {
    pub workers: usize,
    pub min_parallel_txs: usize,
    pub force_sequential: bool,
    pub fallback_entry: bool,
}

impl Default for RunCfg {
    fn default() -> Self {
        RunCfg { workers: 2, min_parallel_txs: 0, force_sequential: false, fallback_entry: false }
    }
}

pub struct GrevmRun {
    pub result: BlockResult,
    pub report: Option<RunReport>,
    pub dict: Vec<String>,
    pub panicked: Option<String>,
}

pub fn grevm_config(rc: &RunCfg) -> GrevmConfig {
    let mut c = GrevmConfig::default().with_delegated_safety(DelegatedSafetyConfig::disabled());
    c.concurrency_level = rc.workers;
    c.min_parallel_txs = rc.min_parallel_txs;
    c.force_sequential = rc.force_sequential;
    c
}

/// Run grevm on the block. With `strategy` the run is driven deterministically (hook driver
/// installed for the duration); without it the run is free-threaded.
pub fn run_grevm(db: MemDb, b: &BlockSpec, rc: &RunCfg, strategy: Option<Box<dyn Strategy>>, max_steps: u64) -> GrevmRun {
    let (cfg, env) = envs(b);
    let txs = Arc::new(b.txs.clone());
    let db = Arc::new(db);
    let state = ParallelState::new(db.clone(), true, false);
    let sched = Scheduler::new_with_runtime_config(cfg, env, txs, state, None, grevm_config(rc));
    let parallel = !(rc.force_sequential || rc.fallback_entry || b.txs.len() < rc.min_parallel_txs);
    let driver = strategy.map(|s| Driver::new(if parallel { rc.workers + 2 } else { usize::MAX }, s, max_steps));
    grevm::verif::reset_interner();
    if let Some(d) = &driver {
        d.install();
    }
    let res = std::panic::catch_unwind(std::panic::AssertUnwindSafe(|| if rc.fallback_entry { sched.fallback_sequential() } else { sched.execute() }));
    Driver::uninstall();
    let dict = grevm::verif::interned();
    let report = driver.map(|d| d.report());
    let (result, panicked) = match res {
        Ok(Ok(())) => (Ok(()), None),
        Ok(Err(e)) => (Err((e.txid, err_digest(&e.error))), None),
        Err(p) => {
            let msg = p.downcast_ref::<String>().cloned().or_else(|| p.downcast_ref::<&str>().map(|s| s.to_string())).unwrap_or_else(|| "panic".into());
            (Err((usize::MAX, format!("PANIC:{msg}"))), Some(msg))
        }
    };
    let (outcomes, mut state) = sched.take_result_and_state();
    let bundle = state.parallel_take_bundle(BundleRetention::Reverts);
    GrevmRun {
        result: BlockResult { result, outcomes: outcomes.iter().map(outcome_digest).collect(), bundle: bundle_digest(&bundle), ben_before: vec![] },
        report,
        dict,
        panicked,
    }
}

/// Compare a grevm run with the oracle; returns human-readable differences (empty = equal).
pub fn compare(o: &BlockResult, g: &BlockResult) -> Vec<String> {
    let mut d = Vec::new();
    if o.result != g.result {
        d.push(format!("result: oracle {:?} grevm {:?}", o.result, g.result));
    }
    if o.outcomes != g.outcomes {
        let k = o.outcomes.iter().zip(&g.outcomes).position(|(a, b)| a != b).unwrap_or(o.outcomes.len().min(g.outcomes.len()));
        d.push(format!("outcomes differ at {k}: oracle {:?} grevm {:?} (len {} vs {})", o.outcomes.get(k), g.outcomes.get(k), o.outcomes.len(), g.outcomes.len()));
    }
    if o.bundle != g.bundle {
        let (ol, gl): (Vec<_>, Vec<_>) = (o.bundle.lines().collect(), g.bundle.lines().collect());
        let k = ol.iter().zip(&gl).position(|(a, b)| a != b).unwrap_or(ol.len().min(gl.len()));
        d.push(format!("bundle differs at line {k}: oracle `{}` grevm `{}`", ol.get(k).unwrap_or(&"<none>"), gl.get(k).unwrap_or(&"<none>")));
    }
    d
}

/// Header of a trace file: everything the Coq acceptor needs besides the events (block size, nonce
/// rule, pre-state value of every location that occurs, slot -> reset-marker map, dictionary).
pub fn trace_header(db: &MemDb, b: &BlockSpec, dict: &[String], workers: usize, ben_before: &[String]) -> String {
    let mut dict: Vec<String> = dict.to_vec();
    let mut ids: HashMap<String, usize> = dict.iter().enumerate().map(|(i, s)| (s.clone(), i)).collect();
    let mut intern = |s: String, dict: &mut Vec<String>| -> usize {
        if let Some(i) = ids.get(&s) {
            return *i;
        }
        dict.push(s.clone());
        ids.insert(s, dict.len() - 1);
        dict.len() - 1
    };
    let mut out = format!("# n={} workers={} chk={}\n", b.txs.len(), workers, (!b.disable_nonce_check) as u8);
    let digest = |i: Option<&AccountInfo>| match i {
        None => "acct:none".to_owned(),
        Some(i) => format!("acct:{:x}:{}:{:x}", i.balance, i.nonce, i.code_hash),
    };
    let bl = intern(format!("B:{:x}", b.beneficiary), &mut dict);
    out.push_str(&format!("# benloc {bl}\n"));
    for (j, d) in ben_before.iter().enumerate() {
        let v = intern(d.clone(), &mut dict);
        out.push_str(&format!("# benobs {j} {v}\n"));
    }
    for (j, tx) in b.txs.iter().enumerate() {
        let l = intern(format!("B:{:x}", tx.caller), &mut dict);
        out.push_str(&format!("# tx {j} {l} {}\n", tx.nonce));
    }
    let n0 = dict.len();
    for i in 0..n0 {
        let name = dict[i].clone();
        let parts: Vec<&str> = name.split(':').collect();
        let addr = |s: &str| -> Address { s.parse().unwrap_or_else(|_| format!("0x{s:0>40}").parse().unwrap()) };
        match parts[0] {
            "B" => {
                let v = intern(digest(db.accounts.get(&addr(parts[1]))), &mut dict);
                out.push_str(&format!("# pre {i} {v}\n"));
            }
            "S" => {
                let a = addr(parts[1]);
                let slot = U256::from_str_radix(parts[2], 16).unwrap();
                let v = intern(format!("u:{:x}", db.storage.get(&(a, slot)).copied().unwrap_or_default()), &mut dict);
                out.push_str(&format!("# pre {i} {v}\n"));
                let m = intern(format!("R:{}", parts[1]), &mut dict);
                out.push_str(&format!("# marker {i} {m}\n"));
            }
            "C" => {
                let h = db.accounts.get(&addr(parts[1])).map(|a| a.code_hash).unwrap_or(KECCAK_EMPTY);
                let v = intern(format!("code:{h:x}"), &mut dict);
                out.push_str(&format!("# pre {i} {v}\n"));
            }
            _ => {}
        }
    }
    for (i, name) in dict.iter().enumerate() {
        if let Some(rest) = name.strip_prefix("acct:") {
            let nonce = rest.split(':').nth(1).and_then(|n| n.parse::<u64>().ok()).unwrap_or(0);
            out.push_str(&format!("# nonce {i} {nonce}\n"));
        }
        out.push_str(&format!("# dict {i} {name}\n"));
    }
    out
}

/// In-order oracle on the first `k` transactions only (reference for "exact committed prefix").
pub fn oracle_prefix(db: &MemDb, b: &BlockSpec, k: usize) -> BlockResult {
    let mut b2 = b.clone();
    b2.txs.truncate(k);
    b2.descr.truncate(k);
    oracle(db, &b2)
}

/// Pick a fault: mostly a key in-order execution reads, sometimes a key only a stale attempt reads.
pub fn pick_fault(rng: &mut Rng, world: &World, in_order_reads: &[DbKey]) -> (DbKey, FaultMode) {
    let mode = if rng.chance(1, 2) { FaultMode::Persistent } else { FaultMode::FailOnce };
    let key = if !in_order_reads.is_empty() && rng.chance(7, 10) {
        rng.pick(in_order_reads).clone()
    } else {
        match rng.below(3) {
            0 => DbKey::Storage(world.mix, U256::from(rng.below(8))),
            1 => DbKey::Basic(eoa(rng.below(world.n_eoa as u64 + 1) as usize)),
            _ => DbKey::Storage(world.victims[0], U256::from(5)),
        }
    };
    (key, mode)
}

/// C04 verdict for one faulty run. `clean` = oracle without the fault, `faulty` = oracle with it.
pub fn fault_verdict(db: &MemDb, b: &BlockSpec, mode: FaultMode, clean: &BlockResult, faulty: &BlockResult, g: &BlockResult) -> Vec<String> {
    match mode {
        FaultMode::Panic => match &g.result {
            Err((_, e)) if e.contains("verif-db-panic") => vec![],
            r => vec![format!("the database panicked but the panic did not reach the caller: grevm returned {r:?}")],
        },
        FaultMode::Persistent => compare(faulty, g),
        FaultMode::FailOnce => {
            if compare(clean, g).is_empty() {
                return vec![]; // absorbed
            }
            match &g.result {
                Err((k, e)) if e.starts_with("Database(") && *k <= b.txs.len() => {
                    let pre = oracle_prefix(db, b, *k);
                    let mut d = Vec::new();
                    if pre.outcomes != g.outcomes {
                        d.push(format!("transient fault reported at {k} but outcomes are not the first {k} in-order outcomes (got {} outcomes)", g.outcomes.len()));
                    }
                    if pre.bundle != g.bundle {
                        d.push(format!("transient fault reported at {k} but the state is not the in-order state after {k} transactions"));
                    }
                    d
                }
                _ => {
                    let mut d = compare(clean, g);
                    d.insert(0, "transient fault neither absorbed nor reported with an exact prefix".to_owned());
                    d
                }
            }
        }
    }
}
