//! Shared by the `guard` (C12) and `facade` (C11) drivers: a small in-memory database, canonical
//! text forms of outcomes and bundles, the grevm runner through the public `Scheduler` API, and a
//! stock-revm in-order runner (public revm API only) that can carry an inspector, another
//! instruction table and extra precompiles.
use grevm::{
    DelegatedSafetyConfig, DynParallelPrecompile, GrevmConfig, ParallelState, ParallelTakeBundle, Scheduler,
    TxExecutionOutcome,
};
use revm::{
    Context, DatabaseCommit, DatabaseRef, ExecuteEvm, InspectEvm, MainBuilder, MainContext,
    context::{BlockEnv, CfgEnv, TxEnv},
    context_interface::result::{EVMError, ExecutionResult},
    database::{BundleState, State, StateBuilder, states::bundle_state::BundleRetention},
    handler::{MainnetContext, MainnetEvm},
    primitives::{Address, B256, Bytes, KECCAK_EMPTY, U256, keccak256},
    state::{AccountInfo, Bytecode},
};
use std::{
    collections::{BTreeMap, HashMap},
    fmt::{self, Write as _},
    sync::Arc,
};

// ------------------------------------------------------------------------------------------ DB

#[derive(Clone, Debug, PartialEq, Eq)]
pub struct DbErr(pub String);
impl fmt::Display for DbErr {
    fn fmt(&self, f: &mut fmt::Formatter<'_>) -> fmt::Result {
        write!(f, "dberr:{}", self.0)
    }
}
impl std::error::Error for DbErr {}
impl revm::database::DBErrorMarker for DbErr {}

#[derive(Clone, Debug, Default)]
pub struct MemDb {
    pub accounts: BTreeMap<Address, AccountInfo>,
    pub storage: HashMap<(Address, U256), U256>,
    pub code: HashMap<B256, Bytecode>,
    /// when false `basic_ref` returns the info without the code (as a disk-backed database would)
    pub inline_code: bool,
}

impl MemDb {
    pub fn put_eoa(&mut self, a: Address, balance: U256, nonce: u64) {
        self.accounts.insert(a, AccountInfo { balance, nonce, code_hash: KECCAK_EMPTY, code: None, ..Default::default() });
    }
    pub fn put_code(&mut self, a: Address, balance: U256, nonce: u64, code: Bytecode) {
        let h = code.hash_slow();
        self.code.insert(h, code.clone());
        self.accounts.insert(a, AccountInfo { balance, nonce, code_hash: h, code: Some(code), ..Default::default() });
    }
}

impl DatabaseRef for MemDb {
    type Error = DbErr;
    fn basic_ref(&self, address: Address) -> Result<Option<AccountInfo>, DbErr> {
        Ok(self.accounts.get(&address).map(|i| {
            let mut i = i.clone();
            if !self.inline_code {
                i.code = None;
            }
            i
        }))
    }
    fn code_by_hash_ref(&self, code_hash: B256) -> Result<Bytecode, DbErr> {
        self.code.get(&code_hash).cloned().ok_or_else(|| DbErr(format!("code {code_hash:x}")))
    }
    fn storage_ref(&self, address: Address, index: U256) -> Result<U256, DbErr> {
        Ok(self.storage.get(&(address, index)).copied().unwrap_or_default())
    }
    fn block_hash_ref(&self, number: u64) -> Result<B256, DbErr> {
        Ok(keccak256(number.to_be_bytes()))
    }
}

// ------------------------------------------------------------------------------- canonical text

/// One line per transaction: the full `ExecutionResult` (status, gas, logs, output) or the skip.
pub fn canon_outcomes(os: &[TxExecutionOutcome]) -> Vec<String> {
    os.iter()
        .map(|o| match o {
            TxExecutionOutcome::Executed(r) => format!("exec {r:?}"),
            TxExecutionOutcome::Skipped(e) => format!("skip {e:?}"),
        })
        .collect()
}

/// Sorted text form of everything a bundle holds (accounts, storage, contracts, reverts, sizes).
pub fn canon_bundle(b: &BundleState) -> Vec<String> {
    let mut out = Vec::new();
    let st: BTreeMap<_, _> = b.state.iter().collect();
    for (a, acc) in st {
        let info = |i: &Option<AccountInfo>| match i {
            None => "none".to_owned(),
            Some(i) => format!("bal={:x},nonce={},code={:x}", i.balance, i.nonce, i.code_hash),
        };
        let mut line = format!("acct {a:x} info[{}] orig[{}] status={:?}", info(&acc.info), info(&acc.original_info), acc.status);
        let slots: BTreeMap<_, _> = acc.storage.iter().collect();
        for (k, v) in slots {
            write!(line, " s[{k:x}]={:x}<-{:x}", v.present_value, v.previous_or_original_value).unwrap();
        }
        out.push(line);
    }
    let cs: BTreeMap<_, _> = b.contracts.iter().collect();
    for (h, c) in cs {
        out.push(format!("code {h:x} {}", revm::primitives::hex::encode(c.original_bytes())));
    }
    for (i, r) in b.reverts.iter().enumerate() {
        let m: BTreeMap<_, _> = r.iter().map(|(a, r)| (a, r)).collect();
        for (a, r) in m {
            let mut st: Vec<String> = r.storage.iter().map(|(k, v)| format!("{k:x}:{v:?}")).collect();
            st.sort();
            out.push(format!("revert {i} {a:x} acct={:?} prev={:?} wipe={} [{}]", r.account, r.previous_status, r.wipe_storage, st.join(",")));
        }
    }
    out.push(format!("sizes state={} reverts={}", b.state_size, b.reverts_size));
    out
}

#[derive(Clone, Debug, PartialEq, Eq)]
pub struct BlockResult {
    pub outcomes: Vec<String>,
    pub bundle: Vec<String>,
}

impl BlockResult {
    pub fn first_diff(&self, other: &BlockResult) -> Option<String> {
        for (i, (a, b)) in self.outcomes.iter().zip(other.outcomes.iter()).enumerate() {
            if a != b {
                return Some(format!("tx {i}: `{a}` vs `{b}`"));
            }
        }
        if self.outcomes.len() != other.outcomes.len() {
            return Some(format!("outcome count {} vs {}", self.outcomes.len(), other.outcomes.len()));
        }
        for (a, b) in self.bundle.iter().zip(other.bundle.iter()) {
            if a != b {
                return Some(format!("bundle: `{a}` vs `{b}`"));
            }
        }
        if self.bundle.len() != other.bundle.len() {
            return Some(format!("bundle lines {} vs {}", self.bundle.len(), other.bundle.len()));
        }
        None
    }
}

// ----------------------------------------------------------------------------------- grevm runner

pub type Precompiles = Arc<Vec<(Address, DynParallelPrecompile)>>;

/// Run a block through the public API. `workers = 0` forces the sequential path.
pub fn run_grevm(
    db: &Arc<MemDb>,
    cfg: &CfgEnv,
    block: &BlockEnv,
    txs: &Arc<Vec<TxEnv>>,
    precompiles: Option<Precompiles>,
    safety: DelegatedSafetyConfig,
    workers: usize,
) -> Result<(Vec<TxExecutionOutcome>, BundleState), String> {
    let state = ParallelState::new(db.clone(), true, true);
    let config = GrevmConfig {
        concurrency_level: workers.max(1),
        force_sequential: workers == 0,
        min_parallel_txs: 0,
        delegated_safety: safety,
    };
    let scheduler = Scheduler::new_with_runtime_config(cfg.clone(), block.clone(), txs.clone(), state, precompiles, config);
    scheduler.execute().map_err(|e| format!("grevm error tx {}: {:?}", e.txid, e.error))?;
    let (outcomes, mut state) = scheduler.take_result_and_state();
    let bundle = state.parallel_take_bundle(BundleRetention::Reverts);
    Ok((outcomes, bundle))
}

pub fn block_result(r: &(Vec<TxExecutionOutcome>, BundleState)) -> BlockResult {
    BlockResult { outcomes: canon_outcomes(&r.0), bundle: canon_bundle(&r.1) }
}

// ------------------------------------------------------------------------------- stock revm runner

pub type StockState<'a> = State<revm::database::WrapDatabaseRef<&'a MemDb>>;
pub type StockCtx<'a> = MainnetContext<StockState<'a>>;
pub type StockEvm<'a, I> = MainnetEvm<StockCtx<'a>, I>;

/// A stock revm `MainnetEvm` over `db` (bundle updates on), with `inspector`. The caller may
/// replace `evm.instruction` / extend `evm.precompiles` before running.
pub fn stock_evm<'a, I>(db: &'a MemDb, cfg: &CfgEnv, block: &BlockEnv, inspector: I) -> StockEvm<'a, I> {
    let state = StateBuilder::new().with_bundle_update().with_database_ref(db).build();
    Context::mainnet().with_db(state).with_cfg(cfg.clone()).with_block(block.clone()).build_mainnet_with_inspector(inspector)
}

/// In-order execution of `txs`, invalid transactions skipped; `inspect` selects the inspector path.
pub fn run_stock_on<'a, I, P>(
    evm: &mut revm::context::Evm<StockCtx<'a>, I, revm::handler::instructions::EthInstructions<revm::interpreter::interpreter::EthInterpreter, StockCtx<'a>>, P, revm::handler::EthFrame>,
    txs: &[TxEnv],
    inspect: bool,
    mut before_tx: impl FnMut(usize, &mut I),
) -> Result<(Vec<TxExecutionOutcome>, BundleState), String>
where
    I: revm::Inspector<StockCtx<'a>>,
    P: revm::handler::PrecompileProvider<StockCtx<'a>, Output = revm::interpreter::InterpreterResult>,
{
    let mut outcomes = Vec::with_capacity(txs.len());
    for (i, tx) in txs.iter().enumerate() {
        before_tx(i, &mut evm.inspector);
        let r = if inspect { evm.inspect_tx(tx.clone()) } else { evm.transact(tx.clone()) };
        match r {
            Ok(rs) => {
                evm.ctx.journaled_state.database.commit(rs.state);
                outcomes.push(TxExecutionOutcome::Executed(rs.result));
            }
            Err(EVMError::Transaction(e)) => outcomes.push(TxExecutionOutcome::Skipped(e)),
            Err(e) => return Err(format!("stock revm error tx {i}: {e:?}")),
        }
    }
    let db = &mut evm.ctx.journaled_state.database;
    db.merge_transitions(BundleRetention::Reverts);
    Ok((outcomes, db.take_bundle()))
}

pub fn is_halt_not_activated(o: &TxExecutionOutcome) -> bool {
    matches!(o, TxExecutionOutcome::Executed(ExecutionResult::Halt { reason, .. })
        if *reason == revm::context_interface::result::HaltReason::NotActivated)
}

pub fn hex(b: &[u8]) -> String {
    revm::primitives::hex::encode(b)
}

pub fn bytes(v: Vec<u8>) -> Bytes {
    Bytes::from(v)
}
