//! Shared pieces of the /verif correspondence harness.
pub mod rng;
