//! Shared pieces of the /verif correspondence harness.
pub mod rng;
pub mod driver;
pub mod e2e;
pub mod reserve;
pub mod guard_common;
