//! End-to-end: delegated-account blocks through the public Scheduler API, policy on vs off.
use crate::rng::Rng;

pub fn e2e_case(_rng: &mut Rng, _i: u64, _inp: &mut String, _out: &mut String) {
    unimplemented!("e2e")
}
