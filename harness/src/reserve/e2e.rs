//! End-to-end: small EIP-7702 blocks through the public `Scheduler` API with the reserve policy
//! on vs off, against an in-order stock-revm oracle.
//!
//! The oracle is independent of grevm's journal scan: it executes every transaction with stock
//! revm (policy-off semantics) under an `Inspector` that reconstructs the surviving value
//! movements frame by frame (CALL value, CREATE endowment, SELFDESTRUCT; reverted frames dropped).
//! Those movements + the post-state are handed to the *extracted Coq model* (planner + scan +
//! reverse walk + rule), which decides for every transaction whether it must be the charged
//! top-level revert or identical to the policy being off.  The oracle follows grevm's actual
//! decisions to obtain the next pre-state (charged-revert state computed analytically: fee, nonce
//! bump, authorisation effects; nothing else), so every decision is checked on the state grevm
//! really had, and the final states are compared at the end.
use super::gen_cases::{addr, addr_id, write_tx};
use crate::rng::Rng;
use grevm::{
    DelegatedSafetyConfig, GrevmConfig, InvalidTransaction, ParallelState, ParallelTakeBundle, Scheduler,
    TxExecutionOutcome,
};
use revm::{
    Context, DatabaseRef, InspectEvm, Inspector, MainBuilder, MainContext,
    database_interface::WrapDatabaseRef,
    interpreter::{CallInputs, CallOutcome, CreateInputs, CreateOutcome},
};
use revm_context::{
    BlockEnv, CfgEnv, DBErrorMarker, TxEnv,
    either::Either,
    result::{EVMError, ExecutionResult},
    transaction::{Authorization, RecoveredAuthority, RecoveredAuthorization},
};
use revm_database::states::bundle_state::BundleRetention;
use revm_primitives::{Address, B256, Bytes, KECCAK_EMPTY, TxKind, U256, hardfork::SpecId};
use revm_state::{AccountInfo, Bytecode, EvmState};
use std::{
    collections::{BTreeMap, BTreeSet, HashMap},
    fmt::{self, Write as _},
    hash::{Hash, Hasher},
    sync::Arc,
};

// ------------------------------------------------------------------------------------------ DB

#[derive(Clone, Debug, Default)]
pub struct MemDb {
    pub accounts: HashMap<Address, AccountInfo>,
    pub codes: HashMap<B256, Bytecode>,
    /// answer `basic_ref` without the bytecode (code is then fetched by hash), as disk-backed
    /// databases do
    pub lazy_code: bool,
}

#[derive(Clone, Debug)]
pub struct DbErr(pub String);
impl fmt::Display for DbErr {
    fn fmt(&self, f: &mut fmt::Formatter<'_>) -> fmt::Result {
        write!(f, "dberr:{}", self.0)
    }
}
impl std::error::Error for DbErr {}
impl DBErrorMarker for DbErr {}

impl DatabaseRef for MemDb {
    type Error = DbErr;
    fn basic_ref(&self, address: Address) -> Result<Option<AccountInfo>, DbErr> {
        Ok(self.accounts.get(&address).cloned().map(|mut info| {
            if self.lazy_code {
                info.code = None;
            }
            info
        }))
    }
    fn code_by_hash_ref(&self, code_hash: B256) -> Result<Bytecode, DbErr> {
        self.codes.get(&code_hash).cloned().ok_or_else(|| DbErr(format!("no code {code_hash}")))
    }
    fn storage_ref(&self, _address: Address, _index: U256) -> Result<U256, DbErr> {
        Ok(U256::ZERO)
    }
    fn block_hash_ref(&self, _number: u64) -> Result<B256, DbErr> {
        Ok(B256::ZERO)
    }
}

impl MemDb {
    fn put(&mut self, a: Address, balance: U256, nonce: u64, code: Option<Bytecode>) {
        let mut info = AccountInfo { balance, nonce, ..Default::default() };
        if let Some(code) = code {
            info.code_hash = code.hash_slow();
            self.codes.insert(info.code_hash, code.clone());
            info.code = Some(code);
        }
        self.accounts.insert(a, info);
    }
}

// ------------------------------------------------------------------------------------ contracts

fn word(v: U256) -> [u8; 32] {
    v.to_be_bytes::<32>()
}
fn addr_word(a: Address) -> [u8; 32] {
    let mut w = [0u8; 32];
    w[12..].copy_from_slice(a.as_slice());
    w
}

/// CALL(gas, calldata[32..64] as address, calldata[0..32] as value, no args); POP; STOP
fn code_fwd() -> Vec<u8> {
    vec![0x60, 0, 0x60, 0, 0x60, 0, 0x60, 0, 0x60, 0, 0x35, 0x60, 0x20, 0x35, 0x5a, 0xf1, 0x50, 0x00]
}
/// two sends: (v1, t1) then (v2, t2) from calldata words 0..4
fn code_fwd2() -> Vec<u8> {
    let mut c = vec![0x60, 0, 0x60, 0, 0x60, 0, 0x60, 0, 0x60, 0, 0x35, 0x60, 0x20, 0x35, 0x5a, 0xf1, 0x50];
    c.extend_from_slice(&[0x60, 0, 0x60, 0, 0x60, 0, 0x60, 0, 0x60, 0x40, 0x35, 0x60, 0x60, 0x35, 0x5a, 0xf1, 0x50, 0x00]);
    c
}
/// SELFDESTRUCT(calldata[32..64])
fn code_sd() -> Vec<u8> {
    vec![0x60, 0x20, 0x35, 0xff]
}
/// CREATE(value = calldata[0..32], empty init code); POP; STOP
fn code_cre() -> Vec<u8> {
    vec![0x60, 0, 0x60, 0, 0x60, 0, 0x35, 0xf0, 0x50, 0x00]
}
/// REVERT(0, 0)
fn code_reverter() -> Vec<u8> {
    vec![0x60, 0, 0x60, 0, 0xfd]
}
/// SELFDESTRUCT(CALLER): sends its whole balance (including what it just received) back
fn code_bouncer() -> Vec<u8> {
    vec![0x33, 0xff]
}
/// init code / contract code that calls `target` with calldata (v, t) and value `w`
fn code_caller_stub(target: Address, v: U256, t: Address, w: U256) -> Vec<u8> {
    let mut c = vec![0x7f];
    c.extend_from_slice(&word(v));
    c.extend_from_slice(&[0x60, 0x00, 0x52, 0x7f]);
    c.extend_from_slice(&addr_word(t));
    c.extend_from_slice(&[0x60, 0x20, 0x52, 0x60, 0, 0x60, 0, 0x60, 0x40, 0x60, 0, 0x7f]);
    c.extend_from_slice(&word(w));
    c.push(0x73);
    c.extend_from_slice(target.as_slice());
    c.extend_from_slice(&[0x5a, 0xf1, 0x50, 0x00]);
    c
}

const L_FWD: u64 = 0x1001;
const L_FWD2: u64 = 0x1002;
const L_SD: u64 = 0x1003;
const L_CRE: u64 = 0x1004;
const REVERTER: u64 = 0x2001;
const BOUNCER: u64 = 0x2002;
const COINBASE: u64 = 0xC0;
fn acct_a(i: u64) -> Address {
    addr(0xA0 + i)
}
fn acct_f(i: u64) -> Address {
    addr(0xF0 + i)
}
fn acct_s(i: u64) -> Address {
    addr(0x50 + i)
}
fn acct_x(i: u64) -> Address {
    addr(0x70 + i)
}

// ------------------------------------------------------------------------------------ generator

pub struct Block {
    pub db: MemDb,
    pub txs: Vec<TxEnv>,
    /// delegated (or to-be-delegated) accounts that send transactions themselves
    pub watched: Vec<Address>,
}

fn call_data(v: U256, t: Address) -> Bytes {
    let mut d = Vec::with_capacity(64);
    d.extend_from_slice(&word(v));
    d.extend_from_slice(&addr_word(t));
    d.into()
}

#[derive(Clone, Copy)]
enum Amount {
    Exact,     // leaves exactly required_after
    OneShort,  // one wei below
    Small,
    All,
    Random,
}

enum Plan {
    /// account `who` (index into `del`) sends a plain transfer
    Own { who: usize, gas_limit: u64, price: u128, value: u64 },
    /// somebody makes `who`'s delegated code run
    Run { who: usize, by_self: bool, sponsor: u64, root_value: u64, amount: Amount, via_create: bool, authorize: Option<u64>, callee: u64 },
    /// on-the-fly delegation of a fresh account by a sponsor (type 4), calling it
    Fresh { fresh: u64, sponsor: u64, logic: u64, amount: u64 },
    Padding { sponsor: u64, value: u64 },
}

pub fn gen_block(rng: &mut Rng) -> Block {
    let mut db = MemDb { lazy_code: rng.chance(1, 2), ..Default::default() };
    for (a, c) in [(L_FWD, code_fwd()), (L_FWD2, code_fwd2()), (L_SD, code_sd()), (L_CRE, code_cre()), (REVERTER, code_reverter()), (BOUNCER, code_bouncer())] {
        db.put(addr(a), U256::ZERO, 1, Some(Bytecode::new_raw(c.into())));
    }
    for j in 0..4 {
        db.put(acct_s(j), U256::from(10u64).pow(U256::from(24u64)), 0, None);
    }
    for m in 0..2 {
        db.put(acct_x(m), U256::from(rng.below(3)), 0, None); // x2, x3 do not exist yet
    }
    db.put(addr(COINBASE), U256::ZERO, 0, None);

    // delegated accounts: (address, logic, initial nonce)
    let n_del = rng.range(1, 3) as usize;
    let logics = [L_FWD, L_FWD, L_FWD, L_FWD2, L_SD, L_CRE];
    let del: Vec<(Address, u64, u64)> =
        (0..n_del).map(|i| (acct_a(i as u64), *rng.pick(&logics), rng.below(3))).collect();
    // whether the account is delegated in the pre-state or by the first transaction that runs it
    let predelegated: Vec<bool> = (0..n_del).map(|_| rng.chance(3, 4)).collect();

    let n = rng.range(2, 9) as usize;
    let mut plans: Vec<Plan> = Vec::new();
    for _ in 0..n {
        let who = rng.below(n_del as u64) as usize;
        plans.push(match rng.below(10) {
            0..=3 => Plan::Own {
                who,
                gas_limit: if rng.chance(3, 4) { 21_000 } else { 60_000 },
                price: rng.below(3) as u128,
                value: if rng.chance(1, 3) { 0 } else { rng.below(50_000) },
            },
            4..=7 => Plan::Run {
                who,
                by_self: rng.chance(1, 5),
                sponsor: rng.below(4),
                root_value: if rng.chance(1, 3) { rng.below(1000) } else { 0 },
                amount: *rng.pick(&[Amount::Exact, Amount::Exact, Amount::OneShort, Amount::OneShort, Amount::Small, Amount::All, Amount::Random]),
                via_create: rng.chance(1, 7),
                authorize: None,
                callee: *rng.pick(&[0x70, 0x70, 0x71, 0x72, 0x73, REVERTER, BOUNCER]),
            },
            8 => Plan::Fresh { fresh: rng.below(2), sponsor: rng.below(4), logic: *rng.pick(&logics), amount: rng.below(2000) },
            _ => Plan::Padding { sponsor: rng.below(4), value: rng.below(5) },
        });
    }
    // accounts not delegated in the pre-state get their designator from the first Run on them
    let mut pending_auth: Vec<bool> = predelegated.iter().map(|p| !p).collect();
    for p in plans.iter_mut() {
        if let Plan::Run { who, by_self, via_create, authorize, .. } = p {
            if pending_auth[*who] && !*by_self && !*via_create {
                *authorize = Some(del[*who].2);
                pending_auth[*who] = false;
            }
        }
    }

    // total max cost of each account's own transactions -> initial balance regime
    let own_cost = |p: &Plan, i: usize| -> u128 {
        match p {
            Plan::Own { who, gas_limit, price, value } if *who == i => *gas_limit as u128 * price + *value as u128,
            Plan::Run { who, by_self: true, .. } if *who == i => 400_000 * 1,
            _ => 0,
        }
    };
    let mut est: Vec<u128> = Vec::new();
    for i in 0..n_del {
        let total: u128 = plans.iter().map(|p| own_cost(p, i)).sum();
        let balance = match rng.below(8) {
            0 => total,
            1 => total + 1,
            2 => total.saturating_sub(1),
            3 => 0,
            4 => total / 2,
            5 => total + rng.below(5000) as u128,
            _ => total + 1_000_000 + rng.below(1_000_000) as u128,
        };
        est.push(balance);
        let code = predelegated[i].then(|| Bytecode::new_eip7702(addr(del[i].1)));
        db.put(del[i].0, U256::from(balance), del[i].2, code);
    }

    // nonces: every account's transactions carry consecutive nonces from its pre-state nonce (+1
    // per authorisation applied to it earlier in the block)
    let mut nonce: HashMap<Address, u64> = HashMap::new();
    for (a, info) in &db.accounts {
        nonce.insert(*a, info.nonce);
    }
    let next_nonce = |a: Address, nonce: &mut HashMap<Address, u64>| -> u64 {
        let n = nonce.entry(a).or_insert(0);
        *n += 1;
        *n - 1
    };
    let auth = |authority: Address, logic: Address, n: u64| {
        Either::Right(RecoveredAuthorization::new_unchecked(
            Authorization { chain_id: U256::ZERO, address: logic, nonce: n },
            RecoveredAuthority::Valid(authority),
        ))
    };

    let mut txs = Vec::new();
    let mut fresh_done = [false; 2];
    for (pos, p) in plans.iter().enumerate() {
        match p {
            Plan::Own { who, gas_limit, price, value } => {
                let a = del[*who].0;
                txs.push(TxEnv {
                    caller: a,
                    kind: TxKind::Call(acct_x(rng.below(4))),
                    value: U256::from(*value),
                    gas_limit: *gas_limit,
                    gas_price: *price,
                    nonce: next_nonce(a, &mut nonce),
                    ..Default::default()
                });
                est[*who] = est[*who].saturating_sub(21_000 * price + *value as u128);
            }
            Plan::Run { who, by_self, sponsor, root_value, amount, via_create, authorize, callee } => {
                let (a, logic, _) = del[*who];
                let required: u128 = plans[pos + 1..].iter().map(|q| own_cost(q, *who)).sum();
                let have = est[*who] + if *by_self { 0 } else { *root_value as u128 };
                let v: u128 = match amount {
                    Amount::Exact => have.saturating_sub(required),
                    Amount::OneShort => have.saturating_sub(required) + 1,
                    Amount::Small => rng.below(10) as u128,
                    Amount::All => have,
                    Amount::Random => rng.below(have as u64 + 2) as u128,
                };
                let target = addr(*callee);
                let data = if logic == L_FWD2 {
                    let mut d = call_data(U256::from(v / 2), target).to_vec();
                    d.extend_from_slice(&call_data(U256::from(v - v / 2), acct_x(rng.below(4))));
                    d.into()
                } else {
                    call_data(U256::from(v), target)
                };
                let caller = if *by_self { a } else { acct_s(*sponsor) };
                let mut tx = TxEnv {
                    caller,
                    kind: TxKind::Call(a),
                    value: U256::from(if *by_self { 0 } else { *root_value }),
                    gas_limit: 400_000,
                    gas_price: 1,
                    data,
                    ..Default::default()
                };
                if *via_create {
                    // top-level CREATE whose init code calls the delegated account
                    tx.kind = TxKind::Create;
                    tx.value = U256::ZERO;
                    tx.data = code_caller_stub(a, U256::from(v), target, U256::ZERO).into();
                }
                if let Some(n) = authorize {
                    tx.tx_type = 4;
                    tx.authorization_list = vec![auth(a, addr(logic), *n)];
                    *nonce.entry(a).or_insert(0) += 1;
                }
                tx.nonce = next_nonce(caller, &mut nonce);
                txs.push(tx);
                // estimate assumes the debit survives unless it obviously violates
                if v <= have && have - v >= required.min(have) && *callee != REVERTER && *callee != BOUNCER {
                    est[*who] = have - v;
                } else {
                    est[*who] = have;
                }
            }
            Plan::Fresh { fresh, sponsor, logic, amount } => {
                let f = acct_f(*fresh);
                if !db.accounts.contains_key(&f) {
                    db.put(f, U256::from(rng.below(3000)), 0, None);
                    nonce.insert(f, 0);
                }
                let caller = acct_s(*sponsor);
                let mut tx = TxEnv {
                    caller,
                    kind: TxKind::Call(f),
                    gas_limit: 400_000,
                    gas_price: 1,
                    data: call_data(U256::from(*amount), acct_x(rng.below(4))),
                    ..Default::default()
                };
                if !fresh_done[*fresh as usize] {
                    fresh_done[*fresh as usize] = true;
                    tx.tx_type = 4;
                    tx.authorization_list = vec![auth(f, addr(*logic), 0)];
                    *nonce.entry(f).or_insert(0) += 1;
                }
                tx.nonce = next_nonce(caller, &mut nonce);
                txs.push(tx);
            }
            Plan::Padding { sponsor, value } => {
                let caller = acct_s(*sponsor);
                txs.push(TxEnv {
                    caller,
                    kind: TxKind::Call(acct_x(rng.below(4))),
                    value: U256::from(*value),
                    gas_limit: 21_000,
                    gas_price: 1,
                    nonce: next_nonce(caller, &mut nonce),
                    ..Default::default()
                });
            }
        }
    }
    Block { db, txs, watched: del.iter().map(|d| d.0).collect() }
}

// --------------------------------------------------------------------------------------- oracle

pub fn envs() -> (CfgEnv, BlockEnv) {
    let cfg = CfgEnv::new_with_spec(SpecId::PRAGUE);
    let block = BlockEnv { beneficiary: addr(COINBASE), number: U256::from(100u64), ..Default::default() };
    (cfg, block)
}

/// Surviving value movements reconstructed from frame events.
#[derive(Default)]
struct Moves {
    stack: Vec<Vec<(Address, Address, U256)>>,
    done: Vec<(Address, Address, U256)>,
}

impl Moves {
    fn close(&mut self, ok: bool, fix_target: Option<Address>) {
        let mut frame = self.stack.pop().expect("frame");
        if let (Some(a), Some(first)) = (fix_target, frame.first_mut()) {
            if first.1 == Address::ZERO {
                first.1 = a;
            }
        }
        if ok {
            match self.stack.last_mut() {
                Some(parent) => parent.extend(frame),
                None => self.done.extend(frame),
            }
        }
    }
}

impl<CTX> Inspector<CTX> for Moves {
    fn call(&mut self, _: &mut CTX, inputs: &mut CallInputs) -> Option<CallOutcome> {
        let mut frame = Vec::new();
        if let Some(v) = inputs.transfer_value() {
            frame.push((inputs.caller, inputs.target_address, v));
        }
        self.stack.push(frame);
        None
    }
    fn call_end(&mut self, _: &mut CTX, _: &CallInputs, outcome: &mut CallOutcome) {
        self.close(outcome.result.result.is_ok(), None);
    }
    fn create(&mut self, _: &mut CTX, inputs: &mut CreateInputs) -> Option<CreateOutcome> {
        // the endowment's recipient is known at create_end
        self.stack.push(vec![(inputs.caller(), Address::ZERO, inputs.value())]);
        None
    }
    fn create_end(&mut self, _: &mut CTX, _: &CreateInputs, outcome: &mut CreateOutcome) {
        let ok = outcome.result.result.is_ok() && outcome.address.is_some();
        self.close(ok, outcome.address);
    }
    fn selfdestruct(&mut self, contract: Address, target: Address, value: U256) {
        if let Some(frame) = self.stack.last_mut() {
            frame.push((contract, target, value));
        }
    }
}

pub struct StockRun {
    pub result: ExecutionResult,
    pub state: EvmState,
    pub moves: Vec<(Address, Address, U256)>,
}

pub fn run_stock(db: &MemDb, tx: &TxEnv) -> Result<StockRun, InvalidTransaction> {
    let (cfg, block) = envs();
    let mut evm = Context::mainnet()
        .with_db(WrapDatabaseRef(db))
        .with_cfg(cfg)
        .with_block(block)
        .build_mainnet_with_inspector(Moves::default());
    match evm.inspect_tx(tx.clone()) {
        Ok(rs) => {
            let moves = std::mem::take(&mut evm.inspector.done);
            Ok(StockRun { result: rs.result, state: rs.state, moves })
        }
        Err(EVMError::Transaction(e)) => Err(e),
        Err(e) => panic!("stock revm failed: {e:?}"),
    }
}

fn commit(db: &mut MemDb, state: &EvmState) {
    for (a, acc) in state {
        if !acc.is_touched() {
            continue;
        }
        if acc.is_selfdestructed() || acc.is_empty() {
            db.accounts.remove(a);
            continue;
        }
        let mut info = acc.info.clone();
        if let Some(code) = &info.code {
            db.codes.insert(info.code_hash, code.clone());
        } else if info.code_hash != KECCAK_EMPTY && info.code_hash != B256::ZERO {
            info.code = db.codes.get(&info.code_hash).cloned();
        }
        db.accounts.insert(*a, info);
    }
}

/// The state after a charged top-level revert, from the pre-state alone: fee (effective price =
/// gas_price, base fee 0) moved from the caller to the beneficiary, caller nonce bumped, valid
/// authorisations applied; nothing else.
fn charged_revert_state(db: &MemDb, tx: &TxEnv, gas_used: u64) -> MemDb {
    let mut next = db.clone();
    let fee = U256::from(tx.gas_price) * U256::from(gas_used);
    {
        let caller = next.accounts.entry(tx.caller).or_default();
        caller.balance -= fee;
        caller.nonce += 1;
    }
    for item in &tx.authorization_list {
        let Either::Right(rec) = item else { continue };
        let Some(authority) = rec.authority() else { continue };
        let inner: &Authorization = rec;
        let current = next.accounts.get(&authority).cloned().unwrap_or_default();
        let code_ok = current.code.as_ref().is_none_or(|c| c.is_empty() || c.is_eip7702());
        if !inner.chain_id.is_zero() || current.nonce != inner.nonce || !code_ok {
            continue;
        }
        let entry = next.accounts.entry(authority).or_default();
        entry.nonce += 1;
        if inner.address.is_zero() {
            entry.code = None;
            entry.code_hash = KECCAK_EMPTY;
        } else {
            let code = Bytecode::new_eip7702(inner.address);
            entry.code_hash = code.hash_slow();
            next.codes.insert(entry.code_hash, code.clone());
            entry.code = Some(code);
        }
    }
    if !fee.is_zero() {
        next.accounts.entry(addr(COINBASE)).or_default().balance += fee;
    }
    // a fee of zero still touches the beneficiary; an empty touched account is cleared (accounts
    // the transaction did not touch stay as they are, even if empty)
    let coinbase = addr(COINBASE);
    if next.accounts.get(&coinbase).is_some_and(|i| i.balance.is_zero() && i.nonce == 0 && i.code.as_ref().is_none_or(|c| c.is_empty())) {
        next.accounts.remove(&coinbase);
    }
    next
}

// ---------------------------------------------------------------------------------------- grevm

type Norm = (U256, u64, B256);

fn norm(info: Option<&AccountInfo>) -> Norm {
    match info {
        None => (U256::ZERO, 0, KECCAK_EMPTY),
        Some(i) => (i.balance, i.nonce, if i.code_hash == B256::ZERO { KECCAK_EMPTY } else { i.code_hash }),
    }
}

pub struct GrevmRun {
    pub outcomes: Vec<TxExecutionOutcome>,
    pub finals: BTreeMap<Address, Norm>,
    pub error: Option<String>,
}

pub fn run_grevm(db: &MemDb, txs: &Arc<Vec<TxEnv>>, safety: DelegatedSafetyConfig, force_sequential: bool, concurrency_level: usize) -> GrevmRun {
    let (cfg, block) = envs();
    let state = ParallelState::new(Arc::new(db.clone()), true, true);
    let config = GrevmConfig { concurrency_level, force_sequential, min_parallel_txs: 0, delegated_safety: safety };
    let scheduler = Scheduler::new_with_runtime_config(cfg, block, txs.clone(), state, None, config);
    let error = scheduler.execute().err().map(|e| format!("{e:?}"));
    let (outcomes, mut state) = scheduler.take_result_and_state();
    let bundle = state.parallel_take_bundle(BundleRetention::Reverts);
    let mut finals = BTreeMap::new();
    for (a, info) in &db.accounts {
        finals.insert(*a, norm(Some(info)));
    }
    for (a, acc) in &bundle.state {
        finals.insert(*a, norm(acc.info.as_ref()));
    }
    GrevmRun { outcomes, finals, error }
}

fn hash_str(s: &str) -> u64 {
    let mut h = std::collections::hash_map::DefaultHasher::new();
    s.hash(&mut h);
    h.finish()
}

pub fn result_digest(r: &ExecutionResult) -> String {
    let class = match r {
        ExecutionResult::Success { .. } => 'S',
        ExecutionResult::Revert { .. } => 'R',
        ExecutionResult::Halt { .. } => 'H',
    };
    format!("{class}{}-{:x}", r.tx_gas_used(), hash_str(&format!("{r:?}")) & 0xffff_ffff)
}

pub fn outcome_digest(o: &TxExecutionOutcome) -> String {
    match o {
        TxExecutionOutcome::Executed(r) => result_digest(r),
        TxExecutionOutcome::Skipped(e) => skip_digest(e),
    }
}

fn skip_digest(e: &InvalidTransaction) -> String {
    let text = format!("{e:?}");
    let name: String = text.chars().take_while(|c| c.is_alphanumeric()).collect();
    format!("K{name}-{:x}", hash_str(&text) & 0xffff_ffff)
}

fn same_runs(a: &GrevmRun, b: &GrevmRun) -> Option<String> {
    if a.error != b.error {
        return Some(format!("error:{:?}/{:?}", a.error, b.error).replace(' ', "_"));
    }
    if a.outcomes.len() != b.outcomes.len() {
        return Some(format!("len:{}/{}", a.outcomes.len(), b.outcomes.len()));
    }
    for (i, (x, y)) in a.outcomes.iter().zip(&b.outcomes).enumerate() {
        if x != y {
            return Some(format!("tx{i}:{}/{}", outcome_digest(x), outcome_digest(y)));
        }
    }
    diff_finals(&a.finals, &b.finals)
}

fn diff_finals(a: &BTreeMap<Address, Norm>, b: &BTreeMap<Address, Norm>) -> Option<String> {
    let empty = norm(None);
    let keys: BTreeSet<&Address> = a.keys().chain(b.keys()).collect();
    for k in keys {
        let (x, y) = (a.get(k).unwrap_or(&empty), b.get(k).unwrap_or(&empty));
        if x != y {
            return Some(format!("{}:{:x}.{}.{:x}/{:x}.{}.{:x}", addr_id(*k), x.0, x.1, x.2, y.0, y.1, y.2));
        }
    }
    None
}

fn flag(out: &mut String, name: &str, problem: Option<String>) {
    match problem {
        None => write!(out, " {name}:1").unwrap(),
        Some(p) => write!(out, " {name}:0@{p}").unwrap(),
    }
}

/// e2e <n> {tx}*n <m> { X <txid> <nstate> {addr bal deleg}* <nentries> {entry}* <off> <viol> | K <txid> <digest> }*m
/// impl:  o:<actual outcome digests, policy on, sequential> v:<which were charged reverts>
///        par=seq off=stock final fund  (harness-internal cross-checks; `1` = agree)
pub fn e2e_case(rng: &mut Rng, _i: u64, inp: &mut String, out: &mut String) {
    let block = gen_block(rng);
    let txs = Arc::new(block.txs.clone());
    let n = txs.len();
    write!(inp, "e2e {n}").unwrap();
    for tx in txs.iter() {
        write_tx(inp, tx);
    }

    let on_seq = run_grevm(&block.db, &txs, DelegatedSafetyConfig::reserve_only(), true, 4);
    let on_par = run_grevm(&block.db, &txs, DelegatedSafetyConfig::reserve_only(), false, 4);
    let off_seq = run_grevm(&block.db, &txs, DelegatedSafetyConfig::disabled(), true, 4);

    // --- oracle following the decisions grevm actually made (policy on, sequential) ---
    let mut cur = block.db.clone();
    let mut pure_off = block.db.clone(); // plain stock revm, policy-off semantics throughout
    let mut pure_off_outcomes = Vec::new();
    let mut decisions = String::new();
    write!(inp, " {n}").unwrap();
    for (txid, tx) in txs.iter().enumerate() {
        match run_stock(&pure_off, tx) {
            Ok(run) => {
                commit(&mut pure_off, &run.state);
                pure_off_outcomes.push(result_digest(&run.result));
            }
            Err(e) => pure_off_outcomes.push(skip_digest(&e)),
        }
        let actual = on_seq.outcomes.get(txid).map(outcome_digest).unwrap_or_else(|| "missing".into());
        match run_stock(&cur, tx) {
            Err(e) => {
                write!(inp, " K {txid:x} {}", skip_digest(&e)).unwrap();
                decisions.push('0');
            }
            Ok(run) => {
                let off = result_digest(&run.result);
                let viol_result = ExecutionResult::Revert { gas: *run.result.gas(), logs: vec![], output: Bytes::new() };
                let viol = result_digest(&viol_result);
                // final-state view at check time: post-state of the policy-off execution
                let mut view: Vec<(Address, U256, bool)> = run
                    .state
                    .iter()
                    .map(|(a, acc)| {
                        let code = acc.info.code.as_ref().or_else(|| cur.codes.get(&acc.info.code_hash));
                        (*a, acc.info.balance, code.is_some_and(|c| c.is_eip7702()))
                    })
                    .collect();
                view.sort();
                write!(inp, " X {txid:x} {}", view.len()).unwrap();
                for (a, b, d) in &view {
                    write!(inp, " {} {:x} {}", addr_id(*a), b, *d as u8).unwrap();
                }
                // surviving movements, then the caller's reimbursement as revm journals it
                let caller_final = run.state.get(&tx.caller).map_or(U256::ZERO, |a| a.info.balance);
                let reimbursed = U256::from(tx.gas_price) * U256::from(tx.gas_limit - run.result.tx_gas_used());
                write!(inp, " {}", run.moves.len() + 1).unwrap();
                for (f, t, v) in &run.moves {
                    write!(inp, " T {} {} {:x}", addr_id(*f), addr_id(*t), v).unwrap();
                }
                write!(inp, " C {} {:x}", addr_id(tx.caller), caller_final - reimbursed).unwrap();
                write!(inp, " {off} {viol}").unwrap();
                // follow grevm's decision
                if actual != off && actual == viol {
                    decisions.push('1');
                    cur = charged_revert_state(&cur, tx, run.result.tx_gas_used());
                } else {
                    decisions.push('0');
                    commit(&mut cur, &run.state);
                }
            }
        }
    }

    out.push_str("o:");
    for o in &on_seq.outcomes {
        write!(out, "{},", outcome_digest(o)).unwrap();
    }
    write!(out, " v:{decisions}").unwrap();
    flag(out, "par=seq", same_runs(&on_par, &on_seq));
    // policy off = stock revm
    let mut off_problem = off_seq.error.clone();
    for (i, d) in pure_off_outcomes.iter().enumerate() {
        let got = off_seq.outcomes.get(i).map(outcome_digest).unwrap_or_default();
        if off_problem.is_none() && &got != d {
            off_problem = Some(format!("tx{i}:{got}/{d}"));
        }
    }
    let stock_finals: BTreeMap<Address, Norm> = pure_off.accounts.iter().map(|(a, i)| (*a, norm(Some(i)))).collect();
    flag(out, "off=stock", off_problem.or_else(|| diff_finals(&off_seq.finals, &stock_finals)));
    // final state of the policy-on run = oracle following the checked decisions
    let oracle_finals: BTreeMap<Address, Norm> = cur.accounts.iter().map(|(a, i)| (*a, norm(Some(i)))).collect();
    flag(out, "final", on_seq.error.clone().or_else(|| diff_finals(&on_seq.finals, &oracle_finals)));
    // an account that could pay for all its block transactions at block start is never skipped
    // for lack of funds (policy on)
    let mut fund_problem = None;
    for a in &block.watched {
        let total = txs.iter().filter(|t| t.caller == *a).fold(U256::ZERO, |s, t| {
            s.saturating_add(U256::from(t.gas_limit as u128 * t.gas_price).saturating_add(t.value))
        });
        let start = block.db.accounts.get(a).map_or(U256::ZERO, |i| i.balance);
        if start >= total {
            for (i, t) in txs.iter().enumerate() {
                if t.caller == *a && matches!(on_seq.outcomes.get(i), Some(TxExecutionOutcome::Skipped(InvalidTransaction::LackOfFundForMaxFee { .. }))) {
                    fund_problem = Some(format!("{}@tx{i}", addr_id(*a)));
                }
            }
        }
    }
    flag(out, "fund", fund_problem);
}
