//! Planner and journal case generators + runners on the real components
//! (`grevm::verif::reserve`: the production `ReservePlanner`, `delegated_debits_since`,
//! `balance_before_entry`).
use crate::rng::Rng;
use grevm::verif::reserve as real;
use revm_context::{Transaction, TxEnv};
use revm_primitives::{Address, B256, TxKind, U256};
use std::{fmt::Write as _, sync::Arc};

pub fn addr(i: u64) -> Address {
    Address::left_padding_from(&i.to_be_bytes())
}

pub fn addr_id(a: Address) -> String {
    format!("{:x}", U256::from_be_slice(a.as_slice()))
}

/// U256 values concentrated on the limits where checked / saturating arithmetic changes behaviour.
pub fn boundary_u256(rng: &mut Rng) -> U256 {
    let one = U256::from(1u64);
    match rng.below(12) {
        0 => U256::ZERO,
        1 => one,
        2 => U256::MAX,
        3 => U256::MAX - U256::from(rng.below(5)),
        4 => U256::MAX / U256::from(rng.range(2, 4)),
        5 => U256::MAX / U256::from(rng.range(2, 4)) + U256::from(rng.below(3)),
        6 => one << 255,
        7 => (one << 128) - U256::from(rng.below(3)),
        8 => (one << 128) + U256::from(rng.below(3)),
        9 => U256::from(u128::MAX) * U256::from(rng.range(1, 1 << 20)),
        10 => U256::MAX - (U256::from(u128::MAX) >> rng.below(64) as usize),
        _ => U256::from(rng.next()) << (rng.below(193) as usize),
    }
}

pub fn boundary_u128(rng: &mut Rng, gas_limit: u64) -> u128 {
    match rng.below(10) {
        0 => 0,
        1 => 1,
        2 => u128::MAX,
        3 => u128::MAX - rng.below(4) as u128,
        // just around the point where gas_limit * price overflows u128
        4 | 5 if gas_limit > 0 => (u128::MAX / gas_limit as u128).wrapping_add(rng.below(3) as u128).wrapping_sub(1),
        6 => 1u128 << 64,
        7 => (1u128 << 64) - 1,
        8 => (rng.next() as u128) << (rng.below(65) as u32),
        _ => rng.next() as u128,
    }
}

pub fn boundary_u64(rng: &mut Rng) -> u64 {
    match rng.below(8) {
        0 => 0,
        1 => 1,
        2 => u64::MAX,
        3 => u64::MAX - rng.below(4),
        4 => 1 << 32,
        5 => 21_000,
        _ => rng.next() >> rng.below(64),
    }
}

/// One transaction as far as the reserve policy reads it.
pub fn gen_tx(rng: &mut Rng, senders: u64, boundary: bool) -> TxEnv {
    let caller = addr(1 + rng.below(senders));
    let kind = if rng.chance(1, 6) { TxKind::Create } else { TxKind::Call(addr(1 + rng.below(senders + 2))) };
    let (gas_limit, gas_price, value) = if boundary {
        let gl = boundary_u64(rng);
        (gl, boundary_u128(rng, gl), if rng.chance(1, 2) { boundary_u256(rng) } else { U256::from(rng.below(1000)) })
    } else {
        (rng.range(21_000, 1_000_000), rng.below(1000) as u128, U256::from(rng.below(1_000_000)))
    };
    let mut tx = TxEnv { caller, kind, value, gas_limit, gas_price, ..Default::default() };
    match rng.below(8) {
        0 => {
            // EIP-4844: adds blob_count * GAS_PER_BLOB * max_fee_per_blob_gas
            tx.tx_type = 3;
            tx.blob_hashes = vec![B256::ZERO; rng.below(7) as usize];
            tx.max_fee_per_blob_gas = if boundary { boundary_u128(rng, 1 << 17) } else { rng.below(1000) as u128 };
        }
        1 => tx.tx_type = 2,
        2 => tx.tx_type = 4,
        3 => {
            // blob fields present but not a type-3 transaction: must be ignored
            tx.tx_type = 1;
            tx.blob_hashes = vec![B256::ZERO; 2];
            tx.max_fee_per_blob_gas = 7;
        }
        _ => {}
    }
    tx
}

pub fn write_tx(inp: &mut String, tx: &TxEnv) {
    let kind = match tx.kind {
        TxKind::Call(t) => format!("c{}", addr_id(t)),
        TxKind::Create => "C".to_owned(),
    };
    write!(
        inp,
        " {} {} {:x} {:x} {:x} {:x} {:x} {:x}",
        addr_id(tx.caller),
        kind,
        tx.value,
        tx.gas_limit,
        tx.gas_price,
        tx.tx_type,
        tx.blob_hashes.len(),
        tx.max_fee_per_blob_gas
    )
    .unwrap();
}

/// planner <n> {tx}*n <nq> {txid addr}*nq {perm}*nq
/// impl:  c:<max_balance_spending or X>.. q:<answers in query order> r:<answers of a second
/// planner instance queried in the permuted order from two threads, reported in query order>
pub fn planner_case(rng: &mut Rng, i: u64, inp: &mut String, out: &mut String) {
    let boundary = i % 3 == 2; // separate malformed / boundary stream
    let n = match rng.below(10) {
        0 => 0,
        1 => rng.range(20, 48),
        _ => rng.range(1, 12),
    } as usize;
    let senders = rng.range(1, 4);
    let txs: Vec<TxEnv> = (0..n).map(|_| gen_tx(rng, senders, boundary)).collect();
    write!(inp, "planner {n}").unwrap();
    for tx in &txs {
        write_tx(inp, tx);
    }
    let nq = rng.range(1, 2 * n as u64 + 3) as usize;
    let queries: Vec<(usize, Address)> = (0..nq)
        .map(|_| {
            let txid = match rng.below(8) {
                0 => n + rng.below(3) as usize,
                1 => n.saturating_sub(1),
                _ => rng.below(n as u64 + 1) as usize,
            };
            // mostly known senders, sometimes an address that sends nothing
            (txid, addr(1 + rng.below(senders + 2)))
        })
        .collect();
    write!(inp, " {nq}").unwrap();
    for (txid, a) in &queries {
        write!(inp, " {txid:x} {}", addr_id(*a)).unwrap();
    }
    let mut perm: Vec<usize> = (0..nq).collect();
    for k in (1..nq).rev() {
        perm.swap(k, rng.below(k as u64 + 1) as usize);
    }
    for p in &perm {
        write!(inp, " {p:x}").unwrap();
    }

    // --- the real component ---
    out.push_str("c:");
    for tx in &txs {
        match tx.max_balance_spending() {
            Ok(c) => write!(out, "{c:x},").unwrap(),
            Err(_) => out.push_str("X,"),
        }
    }
    let txs = Arc::new(txs);
    let planner = real::PlannerV::new(txs.clone());
    out.push_str(" q:");
    for (txid, a) in &queries {
        write!(out, "{:x},", planner.required_after(*txid, *a)).unwrap();
    }
    // second instance: permuted order, two threads sharing the planner (lazy init races)
    let planner2 = real::PlannerV::new(txs);
    let mut answers = vec![U256::ZERO; nq];
    let (left, right) = perm.split_at(nq / 2);
    let run = |part: &[usize]| -> Vec<(usize, U256)> {
        part.iter().map(|&k| (k, planner2.required_after(queries[k].0, queries[k].1))).collect()
    };
    let (ra, rb) = std::thread::scope(|s| {
        let h = s.spawn(|| run(left));
        let rb = run(right);
        (h.join().unwrap(), rb)
    });
    for (k, v) in ra.into_iter().chain(rb) {
        answers[k] = v;
    }
    out.push_str(" r:");
    for v in answers {
        write!(out, "{v:x},").unwrap();
    }
}

pub fn journal_case(_rng: &mut Rng, _i: u64, _inp: &mut String, _out: &mut String) {
    unimplemented!("journal")
}
