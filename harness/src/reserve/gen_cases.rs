//! Planner and journal case generators + runners on the real components
//! (`grevm::verif::reserve`: the production `ReservePlanner`, `delegated_debits_since`,
//! `balance_before_entry`).
use crate::rng::Rng;
use grevm::verif::reserve as real;
use revm::context_interface::journaled_state::{account::JournaledAccountTr, entry::SelfdestructionRevertStatus};
use revm_context::{Journal, JournalEntry, JournalTr, Transaction, TxEnv, journaled_state::JournalCheckpoint};
use revm_database::EmptyDB;
use revm_primitives::{Address, B256, TxKind, U256, hardfork::SpecId};
use revm_state::{Account, Bytecode};
use std::{fmt::Write as _, sync::Arc};

pub fn addr(i: u64) -> Address {
    Address::left_padding_from(&i.to_be_bytes())
}

pub fn addr_id(a: Address) -> String {
    format!("{:x}", U256::from_be_slice(a.as_slice()))
}

/// U256 values concentrated on the limits where checked / saturating arithmetic changes behaviour.
pub fn boundary_u256(rng: &mut Rng) -> U256 {
    let one = U256::from(1u64);
    match rng.below(12) {
        0 => U256::ZERO,
        1 => one,
        2 => U256::MAX,
        3 => U256::MAX - U256::from(rng.below(5)),
        4 => U256::MAX / U256::from(rng.range(2, 4)),
        5 => U256::MAX / U256::from(rng.range(2, 4)) + U256::from(rng.below(3)),
        6 => one << 255,
        7 => (one << 128) - U256::from(rng.below(3)),
        8 => (one << 128) + U256::from(rng.below(3)),
        9 => U256::from(u128::MAX) * U256::from(rng.range(1, 1 << 20)),
        10 => U256::MAX - (U256::from(u128::MAX) >> rng.below(64) as usize),
        _ => U256::from(rng.next()) << (rng.below(193) as usize),
    }
}

pub fn boundary_u128(rng: &mut Rng, gas_limit: u64) -> u128 {
    match rng.below(10) {
        0 => 0,
        1 => 1,
        2 => u128::MAX,
        3 => u128::MAX - rng.below(4) as u128,
        // just around the point where gas_limit * price overflows u128
        4 | 5 if gas_limit > 0 => (u128::MAX / gas_limit as u128).wrapping_add(rng.below(3) as u128).wrapping_sub(1),
        6 => 1u128 << 64,
        7 => (1u128 << 64) - 1,
        8 => (rng.next() as u128) << (rng.below(65) as u32),
        _ => rng.next() as u128,
    }
}

pub fn boundary_u64(rng: &mut Rng) -> u64 {
    match rng.below(8) {
        0 => 0,
        1 => 1,
        2 => u64::MAX,
        3 => u64::MAX - rng.below(4),
        4 => 1 << 32,
        5 => 21_000,
        _ => rng.next() >> rng.below(64),
    }
}

/// One transaction as far as the reserve policy reads it.
pub fn gen_tx(rng: &mut Rng, senders: u64, boundary: bool) -> TxEnv {
    let caller = addr(1 + rng.below(senders));
    let kind = if rng.chance(1, 6) { TxKind::Create } else { TxKind::Call(addr(1 + rng.below(senders + 2))) };
    let (gas_limit, gas_price, value) = if boundary {
        let gl = boundary_u64(rng);
        (gl, boundary_u128(rng, gl), if rng.chance(1, 2) { boundary_u256(rng) } else { U256::from(rng.below(1000)) })
    } else {
        (rng.range(21_000, 1_000_000), rng.below(1000) as u128, U256::from(rng.below(1_000_000)))
    };
    let mut tx = TxEnv { caller, kind, value, gas_limit, gas_price, ..Default::default() };
    match rng.below(8) {
        0 => {
            // EIP-4844: adds blob_count * GAS_PER_BLOB * max_fee_per_blob_gas
            tx.tx_type = 3;
            tx.blob_hashes = vec![B256::ZERO; rng.below(7) as usize];
            tx.max_fee_per_blob_gas = if boundary { boundary_u128(rng, 1 << 17) } else { rng.below(1000) as u128 };
        }
        1 => tx.tx_type = 2,
        2 => tx.tx_type = 4,
        3 => {
            // blob fields present but not a type-3 transaction: must be ignored
            tx.tx_type = 1;
            tx.blob_hashes = vec![B256::ZERO; 2];
            tx.max_fee_per_blob_gas = 7;
        }
        _ => {}
    }
    tx
}

pub fn write_tx(inp: &mut String, tx: &TxEnv) {
    let kind = match tx.kind {
        TxKind::Call(t) => format!("c{}", addr_id(t)),
        TxKind::Create => "C".to_owned(),
    };
    write!(
        inp,
        " {} {} {:x} {:x} {:x} {:x} {:x} {:x}",
        addr_id(tx.caller),
        kind,
        tx.value,
        tx.gas_limit,
        tx.gas_price,
        tx.tx_type,
        tx.blob_hashes.len(),
        tx.max_fee_per_blob_gas
    )
    .unwrap();
}

/// planner <n> {tx}*n <nq> {txid addr}*nq {perm}*nq
/// impl:  c:<max_balance_spending or X>.. q:<answers in query order> r:<answers of a second
/// planner instance queried in the permuted order from two threads, reported in query order>
pub fn planner_case(rng: &mut Rng, i: u64, inp: &mut String, out: &mut String) {
    let boundary = i % 3 == 2; // separate malformed / boundary stream
    let n = match rng.below(10) {
        0 => 0,
        1 => rng.range(20, 48),
        _ => rng.range(1, 12),
    } as usize;
    let senders = rng.range(1, 4);
    let txs: Vec<TxEnv> = (0..n).map(|_| gen_tx(rng, senders, boundary)).collect();
    write!(inp, "planner {n}").unwrap();
    for tx in &txs {
        write_tx(inp, tx);
    }
    let nq = rng.range(1, 2 * n as u64 + 3) as usize;
    let queries: Vec<(usize, Address)> = (0..nq)
        .map(|_| {
            let txid = match rng.below(8) {
                0 => n + rng.below(3) as usize,
                1 => n.saturating_sub(1),
                _ => rng.below(n as u64 + 1) as usize,
            };
            // mostly known senders, sometimes an address that sends nothing
            (txid, addr(1 + rng.below(senders + 2)))
        })
        .collect();
    write!(inp, " {nq}").unwrap();
    for (txid, a) in &queries {
        write!(inp, " {txid:x} {}", addr_id(*a)).unwrap();
    }
    let mut perm: Vec<usize> = (0..nq).collect();
    for k in (1..nq).rev() {
        perm.swap(k, rng.below(k as u64 + 1) as usize);
    }
    for p in &perm {
        write!(inp, " {p:x}").unwrap();
    }

    // --- the real component ---
    out.push_str("c:");
    for tx in &txs {
        match tx.max_balance_spending() {
            Ok(c) => write!(out, "{c:x},").unwrap(),
            Err(_) => out.push_str("X,"),
        }
    }
    let txs = Arc::new(txs);
    let planner = real::PlannerV::new(txs.clone());
    out.push_str(" q:");
    for (txid, a) in &queries {
        write!(out, "{:x},", planner.required_after(*txid, *a)).unwrap();
    }
    // second instance: permuted order, two threads sharing the planner (lazy init races)
    let planner2 = real::PlannerV::new(txs);
    let mut answers = vec![U256::ZERO; nq];
    let (left, right) = perm.split_at(nq / 2);
    let run = |part: &[usize]| -> Vec<(usize, U256)> {
        part.iter().map(|&k| (k, planner2.required_after(queries[k].0, queries[k].1))).collect()
    };
    let (ra, rb) = std::thread::scope(|s| {
        let h = s.spawn(|| run(left));
        let rb = run(right);
        (h.join().unwrap(), rb)
    });
    for (k, v) in ra.into_iter().chain(rb) {
        answers[k] = v;
    }
    out.push_str(" r:");
    for v in answers {
        write!(out, "{v:x},").unwrap();
    }
}

// ------------------------------------------------------------------------------------ journal

fn write_entries(inp: &mut String, entries: &[JournalEntry]) {
    write!(inp, " {}", entries.len()).unwrap();
    for e in entries {
        match e {
            JournalEntry::BalanceTransfer { from, to, balance } => {
                write!(inp, " T {} {} {:x}", addr_id(*from), addr_id(*to), balance).unwrap()
            }
            JournalEntry::AccountDestroyed { address, target, had_balance, .. } => {
                write!(inp, " D {} {} {:x}", addr_id(*address), addr_id(*target), had_balance).unwrap()
            }
            JournalEntry::BalanceChange { address, old_balance } => {
                write!(inp, " C {} {:x}", addr_id(*address), old_balance).unwrap()
            }
            _ => inp.push_str(" O"),
        }
    }
}

fn account_with(balance: U256, code: u64, delegate_to: Address) -> Account {
    let mut account = Account::default();
    account.info.balance = balance;
    account.info.code = match code {
        0 => None,                                                          // code not loaded
        1 => Some(Bytecode::new_eip7702(delegate_to)),                      // designator
        2 => Some(Bytecode::new_raw(vec![0x60, 0x00, 0x00].into())),        // ordinary contract
        _ => Some(Bytecode::default()),                                     // loaded, empty
    };
    if let Some(code) = &account.info.code {
        account.info.code_hash = code.hash_slow();
    }
    account
}

fn balances_of(journal: &Journal<EmptyDB>, n_addr: u64) -> Vec<Option<U256>> {
    (1..=n_addr).map(|i| journal.inner.state.get(&addr(i)).map(|a| a.info.balance)).collect()
}

pub struct JournalCase {
    pub cp: JournalCheckpoint,
    pub tx: TxEnv,
    /// (journal length, balances of addresses 1..=n_addr) recorded while driving the journal
    pub snaps: Vec<(usize, Vec<Option<U256>>)>,
    pub n_addr: u64,
}

/// Drive `journal` (revm's real journal over an empty database): accounts 1..=6 with random
/// balances / designators, a few pre-checkpoint entries, the execution checkpoint, then random
/// balance-moving operations through the public API (or, for `malformed`, arbitrary entries
/// pushed directly).  `given_tx` fixes the transaction (caller must be one of 1..=6).
pub fn build_journal(rng: &mut Rng, malformed: bool, journal: &mut Journal<EmptyDB>, given_tx: Option<TxEnv>) -> JournalCase {
    let n_addr = 8u64;
    // AccountDestroyed is only journaled before Cancun or for accounts created in this tx
    let spec = if rng.chance(1, 2) { SpecId::PRAGUE } else { SpecId::SHANGHAI };
    journal.set_spec_id(spec);
    let big = rng.below(n_addr) + 1; // at most one very rich account: no U256 overflow on credits
    for a in 1..=6u64 {
        let balance = if malformed {
            boundary_u256(rng)
        } else if a == big && rng.chance(1, 3) {
            (U256::from(1u64) << 255) - U256::from(rng.below(3))
        } else {
            match rng.below(5) {
                0 => U256::ZERO,
                1 => U256::from(rng.below(5)),
                _ => U256::from(rng.below(2000)),
            }
        };
        let code = if rng.chance(1, 2) { 1 } else { rng.below(4) };
        journal.inner.state.insert(addr(a), account_with(balance, code, addr(1 + rng.below(n_addr))));
    }
    // addresses 7, 8 are loaded from the (empty) database on first use

    let mut tx = given_tx.unwrap_or_else(|| TxEnv {
        caller: addr(1 + rng.below(6)),
        kind: if rng.chance(1, 5) { TxKind::Create } else { TxKind::Call(addr(1 + rng.below(n_addr))) },
        value: match rng.below(4) {
            0 => U256::ZERO,
            _ => U256::from(rng.range(1, 40)),
        },
        ..Default::default()
    });
    let caller = tx.caller;
    let target = match tx.kind {
        TxKind::Call(t) => t,
        TxKind::Create => addr(1 + rng.below(n_addr)),
    };

    let mut snaps: Vec<(usize, Vec<Option<U256>>)> = Vec::new();
    let cp;
    if malformed {
        // entries pushed directly: any kind, any values (from == to, zero, not matching the
        // balances) - both sides must still agree, including where the walk saturates
        let pre = rng.below(3) as usize;
        let total = pre + rng.below(9) as usize;
        let mut entries = Vec::new();
        for _ in 0..total {
            let (x, y) = (addr(1 + rng.below(n_addr)), addr(1 + rng.below(n_addr)));
            let v = match rng.below(4) {
                0 => U256::ZERO,
                1 => tx.value,
                2 => boundary_u256(rng),
                _ => U256::from(rng.below(3000)),
            };
            entries.push(match rng.below(8) {
                0 | 1 | 2 => JournalEntry::BalanceTransfer { from: x, to: y, balance: v },
                3 => JournalEntry::BalanceTransfer { from: caller, to: target, balance: tx.value },
                4 => JournalEntry::AccountDestroyed {
                    address: x,
                    target: y,
                    destroyed_status: SelfdestructionRevertStatus::GloballySelfdestroyed,
                    had_balance: v,
                },
                5 => JournalEntry::BalanceChange { address: x, old_balance: v },
                6 => JournalEntry::NonceBump { address: x },
                _ => JournalEntry::AccountTouched { address: x },
            });
        }
        journal.inner.journal.extend(entries.drain(..pre));
        cp = journal.checkpoint();
        journal.inner.journal.extend(entries);
    } else {
        // --- before the execution checkpoint: fee deduction / nonce bump style entries ---
        for _ in 0..rng.below(3) {
            snaps.push((journal.inner.journal.len(), balances_of(&journal, n_addr)));
            let a = addr(1 + rng.below(6));
            let mut acc = journal.load_account_mut(a).unwrap().data;
            if rng.chance(1, 2) {
                let b = *acc.balance();
                acc.set_balance(b - b / U256::from(rng.range(2, 5)));
            } else {
                acc.bump_nonce();
            }
        }
        cp = journal.checkpoint();
        let mut open: Vec<(JournalCheckpoint, usize)> = Vec::new(); // (checkpoint, snaps.len() at creation)
        let nops = rng.below(11);
        for op in 0..nops {
            snaps.push((journal.inner.journal.len(), balances_of(&journal, n_addr)));
            let (mut x, y) = (addr(1 + rng.below(n_addr)), addr(1 + rng.below(n_addr)));
            // prefer sources that carry a designator and still hold something
            let rich: Vec<Address> = (1..=6u64)
                .map(addr)
                .filter(|a| {
                    journal.inner.state.get(a).is_some_and(|acc| {
                        !acc.info.balance.is_zero() && acc.info.code.as_ref().is_some_and(|c| c.is_eip7702())
                    })
                })
                .collect();
            if !rich.is_empty() && rng.chance(1, 2) {
                x = *rng.pick(&rich);
            }
            let bal_x = journal.inner.state.get(&x).map_or(U256::ZERO, |a| a.info.balance);
            let amount = match rng.below(6) {
                0 => U256::ZERO,
                1 => bal_x,
                2 => bal_x + U256::from(1u64), // out of funds: fails, nothing journaled but a touch
                3 => tx.value,
                _ => bal_x / U256::from(rng.range(1, 4)),
            };
            match if op == 0 && rng.chance(2, 3) { 100 } else { rng.below(14) } {
                100 => {
                    // the root value transfer (or the root CREATE endowment)
                    let bal_c = journal.inner.state.get(&caller).map_or(U256::ZERO, |a| a.info.balance);
                    if bal_c < tx.value {
                        tx.value = bal_c;
                    }
                    journal.transfer(caller, target, tx.value).unwrap();
                }
                0..=4 => {
                    journal.transfer(x, y, amount).unwrap();
                }
                5 => {
                    journal.load_account(x).unwrap();
                    journal.selfdestruct(x, y, false).unwrap();
                }
                6 => {
                    journal.balance_incr(x, U256::from(rng.below(500))).unwrap();
                }
                7 => {
                    let mut acc = journal.load_account_mut(x).unwrap().data;
                    if rng.chance(1, 2) {
                        acc.decr_balance(amount);
                    } else {
                        acc.set_balance(U256::from(rng.below(3000)));
                    }
                }
                8 => {
                    let mut acc = journal.load_account_mut(x).unwrap().data;
                    acc.bump_nonce();
                }
                9 => journal.touch_account(x),
                10 | 11 => open.push((journal.checkpoint(), snaps.len())),
                12 => {
                    if let Some((c, n)) = open.pop() {
                        if rng.chance(1, 2) {
                            journal.checkpoint_revert(c);
                            snaps.truncate(n); // snapshots of the reverted range no longer exist
                        } else {
                            journal.checkpoint_commit();
                        }
                    }
                }
                _ => {
                    // CREATE endowment to a fresh address (own checkpoint; committed or reverted)
                    let fresh = addr(20 + op);
                    journal.load_account(x).unwrap();
                    journal.load_account(fresh).unwrap();
                    let n = snaps.len();
                    if amount <= bal_x {
                        if let Ok(c) = journal.create_account_checkpoint(x, fresh, amount, spec) {
                            if rng.chance(1, 3) {
                                journal.checkpoint_revert(c);
                                snaps.truncate(n);
                            } else {
                                journal.checkpoint_commit();
                            }
                        }
                    }
                }
            }
        }
        while let Some((c, n)) = open.pop() {
            if rng.chance(1, 3) {
                journal.checkpoint_revert(c);
                snaps.truncate(n);
            } else {
                journal.checkpoint_commit();
            }
        }
        // reimbursement of the caller
        if rng.chance(1, 2) {
            snaps.push((journal.inner.journal.len(), balances_of(&journal, n_addr)));
            journal.balance_incr(caller, U256::from(rng.below(100))).unwrap();
        }
    }
    // keep only snapshots that are still consistent with the surviving journal
    let len = journal.inner.journal.len();
    snaps.retain(|(k, _)| *k <= len);
    JournalCase { cp, tx, snaps, n_addr }
}

fn write_state(inp: &mut String, journal: &Journal<EmptyDB>) {
    let mut state: Vec<(Address, U256, bool)> = journal
        .inner
        .state
        .iter()
        .map(|(a, acc)| (*a, acc.info.balance, acc.info.code.as_ref().is_some_and(|c| c.is_eip7702())))
        .collect();
    state.sort();
    write!(inp, " {}", state.len()).unwrap();
    for (a, b, d) in &state {
        write!(inp, " {} {:x} {}", addr_id(*a), b, *d as u8).unwrap();
    }
}

/// journal <cp> <tx> <nstate> {addr bal deleg}* <nentries> {entry}* <nbb> {k a}* <nsnap> {k a bal}*
/// impl:  d:<addr>:<before>:<final>,.. (sorted by address)  bb:<balance_before_entry(k, a)>,..
pub fn journal_case(rng: &mut Rng, i: u64, inp: &mut String, out: &mut String) {
    let malformed = i % 4 == 3;
    let mut journal = Journal::<EmptyDB>::new(EmptyDB::default());
    let JournalCase { cp, tx, snaps, n_addr } = build_journal(rng, malformed, &mut journal, None);
    let entries: Vec<JournalEntry> = journal.inner.journal.clone();

    write!(inp, "journal {:x}", cp.journal_i).unwrap();
    write_tx(inp, &tx);
    write_state(inp, &journal);
    write_entries(inp, &entries);

    // --- real scan ---
    let mut debits = real::delegated_debits_since(&journal, cp, &tx);
    debits.sort();
    out.push_str("d:");
    for (a, before, fin) in &debits {
        write!(out, "{}:{:x}:{:x},", addr_id(*a), before, fin).unwrap();
    }
    // --- real reverse walk at (k, a) points: every snapshot point, plus random ones ---
    let mut points: Vec<(usize, Address, U256)> = Vec::new();
    for (k, bals) in &snaps {
        for (idx, b) in bals.iter().enumerate() {
            let a = addr(idx as u64 + 1);
            if b.is_some() && journal.inner.state.contains_key(&a) && rng.chance(1, 2) {
                points.push((*k, a, journal.inner.state[&a].info.balance));
            }
        }
    }
    for _ in 0..3 {
        let a = addr(1 + rng.below(n_addr));
        let fin = if malformed { boundary_u256(rng) } else { U256::from(rng.below(5000)) };
        points.push((rng.below(entries.len() as u64 + 1) as usize, a, fin));
    }
    write!(inp, " {}", points.len()).unwrap();
    out.push_str(" bb:");
    for (k, a, fin) in &points {
        write!(inp, " {:x} {} {:x}", k, addr_id(*a), fin).unwrap();
        write!(out, "{:x},", real::balance_before_entry(&entries, *k, *a, *fin)).unwrap();
    }
    // the balances the accounts really had when the journal had length k (model-independent
    // reference for the walk; `S` tokens are ignored by the model)
    let mut snap_tokens = String::new();
    let mut count = 0;
    for (k, bals) in &snaps {
        for (idx, b) in bals.iter().enumerate() {
            if let Some(b) = b {
                write!(snap_tokens, " {:x} {:x} {:x}", k, idx + 1, b).unwrap();
                count += 1;
            }
        }
    }
    write!(inp, " {count}{snap_tokens}").unwrap();
}

// --------------------------------------------------------------------------------------- rule

/// rule <malformed> <n> {tx}*n <txid> <cp> <nstate> {addr bal deleg}* <nentries> {entry}*
/// impl:  v:<0|1>   (the production WithReserveHandler::has_reserve_violation on a real EVM
/// context whose journal was driven as in `journal_case`, with the production planner)
pub fn rule_case(rng: &mut Rng, i: u64, inp: &mut String, out: &mut String) {
    let malformed = i % 4 == 3;
    let boundary = i % 5 == 4;
    let n = rng.range(1, 12) as usize;
    let senders = rng.range(2, 6);
    let mut txs: Vec<TxEnv> = (0..n)
        .map(|_| {
            if boundary {
                gen_tx(rng, senders, true)
            } else {
                // costs of the same magnitude as the journal's balances, so the comparison is
                // exercised on both sides of the boundary
                let mut tx = gen_tx(rng, senders, false);
                tx.gas_limit = rng.below(40);
                tx.gas_price = rng.below(30) as u128;
                tx.value = U256::from(rng.below(800));
                tx.tx_type = 0;
                tx
            }
        })
        .collect();
    // mostly early positions, so that later transactions of the same senders exist
    let txid = if rng.chance(2, 3) { rng.below((n as u64 + 1) / 2) } else { rng.below(n as u64) } as usize;
    let mut rule = real::RuleV::new();
    let JournalCase { cp, tx, .. } = build_journal(rng, malformed, rule.journal_mut(), Some(txs[txid].clone()));
    txs[txid] = tx.clone(); // the root transfer may have clamped the value to the caller's balance
    write!(inp, "rule {} {n}", malformed as u8).unwrap();
    for t in &txs {
        write_tx(inp, t);
    }
    write!(inp, " {txid:x} {:x}", cp.journal_i).unwrap();
    write_state(inp, rule.journal());
    write_entries(inp, &rule.journal().inner.journal);
    let planner = real::PlannerV::new(Arc::new(txs));
    let violated = rule.has_reserve_violation(tx, txid, &planner, cp);
    write!(out, "v:{}", violated as u8).unwrap();
}
