//! Reserve group (C13): generators and runners on the real components.
pub mod e2e;
pub mod gen_cases;
