(* Line driver for the extracted Ben model (C07): reads the cases harness/src/bin/ben.rs wrote
   (one per line) from stdin and prints what the model returns in the format of the .impl file.
   All numbers are lower-case hex; see ben.rs for the grammar. *)
open Ben

(* ---- numbers ---- *)
let rec nat_of_int n = if n <= 0 then O else S (nat_of_int (n - 1))
let rec int_of_nat = function O -> 0 | S n -> 1 + int_of_nat n

let hexval c =
  match c with
  | '0' .. '9' -> Char.code c - 48
  | 'a' .. 'f' -> Char.code c - 87
  | _ -> failwith ("bad hex digit " ^ String.make 1 c)

(* positive from most-significant-first bits *)
let n_of_hex (s : string) : n =
  let acc = ref None in
  String.iter
    (fun c ->
      let v = hexval c in
      for k = 3 downto 0 do
        let b = (v lsr k) land 1 = 1 in
        acc :=
          (match !acc with
           | None -> if b then Some XH else None
           | Some p -> Some (if b then XI p else XO p))
      done)
    s;
  match !acc with None -> N0 | Some p -> Npos p

let hex_of_n (x : n) : string =
  match x with
  | N0 -> "0"
  | Npos p ->
      let bits = ref [] in
      (* least significant first *)
      let rec go = function
        | XH -> bits := 1 :: !bits
        | XO q -> bits := 0 :: !bits; go q
        | XI q -> bits := 1 :: !bits; go q
      in
      go p;
      (* !bits is now most significant first *)
      let l = !bits in
      let pad = (4 - List.length l mod 4) mod 4 in
      let l = List.init pad (fun _ -> 0) @ l in
      let b = Buffer.create 64 in
      let rec emit = function
        | a :: b1 :: c :: d :: rest ->
            Buffer.add_char b "0123456789abcdef".[(a * 8) + (b1 * 4) + (c * 2) + d];
            emit rest
        | _ -> ()
      in
      emit l;
      Buffer.contents b

let z_of_signed (s : string) : z =
  if String.length s > 0 && s.[0] = '-' then
    match n_of_hex (String.sub s 1 (String.length s - 1)) with N0 -> Z0 | Npos p -> Zneg p
  else match n_of_hex s with N0 -> Z0 | Npos p -> Zpos p

let nat_of_hex s = nat_of_int (int_of_string ("0x" ^ s))
let hex_of_nat n = Printf.sprintf "%x" (int_of_nat n)

(* ---- accounts ---- *)
let split c s = String.split_on_char c s

(* "-" | "A:<bal>:<nonce>:<code>" *)
let acct_of (s : string) : acct option =
  if s = "-" then None
  else
    match split ':' s with
    | [ "A"; b; n; c ] -> Some { bal = n_of_hex b; nonce = n_of_hex n; code = n_of_hex c }
    | _ -> failwith ("bad acct " ^ s)

let str_acct (a : acct) = Printf.sprintf "A:%s:%s:%s" (hex_of_n a.bal) (hex_of_n a.nonce) (hex_of_n a.code)
let str_oacct = function None -> "-" | Some a -> str_acct a

(* flags: bit0 touched, bit1 created, bit2 selfdestructed, bit3 loaded-as-not-existing.
   "-" | "<flags>/<acct>" *)
let jacct_of (s : string) : jacct option =
  if s = "-" then None
  else
    match split '/' s with
    | [ f; a ] ->
        let f = int_of_string ("0x" ^ f) in
        (match acct_of a with
         | Some i ->
             Some { jinfo = i; touched = f land 1 <> 0; created = f land 2 <> 0;
                    selfdestructed = f land 4 <> 0; not_existing = f land 8 <> 0 }
         | None -> failwith "jacct without info")
    | _ -> failwith ("bad jacct " ^ s)

let str_jacct (j : jacct) =
  let f = (if j.touched then 1 else 0) lor (if j.created then 2 else 0)
          lor (if j.selfdestructed then 4 else 0) lor (if j.not_existing then 8 else 0) in
  Printf.sprintf "%x/%s" f (str_acct j.jinfo)
let str_ojacct = function None -> "-" | Some j -> str_jacct j

let on_of s = if s = "-" then None else Some (n_of_hex s)
let str_on = function None -> "-" | Some x -> hex_of_n x

let versions_of (s : string) : (nat * n) list =
  if s = "_" then []
  else List.map (fun v -> match split '.' v with
      | [ t; i ] -> (nat_of_hex t, n_of_hex i)
      | _ -> failwith ("bad version " ^ v)) (split '/' s)

let str_versions (l : (nat * n) list) =
  if l = [] then "_" else String.concat "/" (List.map (fun (t, i) -> hex_of_nat t ^ "." ^ hex_of_n i) l)

(* ---- environments ---- *)
let cfg_of s = match split ',' s with
  | [ sp; fd ] -> { spec = n_of_hex sp; fee_disabled = (fd = "1") }
  | _ -> failwith ("bad cfg " ^ s)
let tx_of s = match split ',' s with
  | [ ty; p; pr ] -> { tx_type = n_of_hex ty; gas_price = n_of_hex p; prio_fee = on_of pr }
  | _ -> failwith ("bad tx " ^ s)
let gas_of s = match split ',' s with
  | [ l; r; rf; rs ] -> { g_limit = n_of_hex l; g_remaining = n_of_hex r; g_refunded = z_of_signed rf; g_reservoir = n_of_hex rs }
  | _ -> failwith ("bad gas " ^ s)

let str_resolve = function
  | None -> "P"
  | Some (Inl k) -> "E" ^ hex_of_nat k
  | Some (Inr (a, vs)) -> Printf.sprintf "O%s[%s]" (str_oacct a) (str_versions vs)

let str_fin = function
  | FUnchanged -> "0"
  | FDeleted -> "1"
  | FCreated i -> "2:" ^ str_acct i
  | FUpdated i -> "3:" ^ str_acct i

(* ---- cases ---- *)
let hist_case n anchor ops =
  let h = ref (new_hist (acct_of anchor) (nat_of_hex n)) in
  let b = Buffer.create 128 in
  let upd = function
    | None -> Buffer.add_string b " P"
    | Some (h', r) -> h := h'; Buffer.add_string b (if r then " T" else " F")
  in
  List.iter (fun o ->
    match split ',' o with
    | [ "x"; t; i; k ] ->
        let (d, j) =
          match k.[0] with
          | 'u' -> (None, None)
          | 'r' -> (Some (n_of_hex (String.sub k 1 (String.length k - 1))), None)
          | 'j' -> (None, jacct_of (String.sub k 1 (String.length k - 1)))
          | 'b' -> (match split ';' (String.sub k 1 (String.length k - 1)) with
                    | [ a; j ] -> (Some (n_of_hex a), jacct_of j)
                    | _ -> failwith "bad b")
          | _ -> failwith ("bad record kind " ^ k)
        in
        upd (record_execution !h (nat_of_hex t) (n_of_hex i) d j)
    | [ "e"; t; i ] -> upd (record_estimate !h (nat_of_hex t) (n_of_hex i))
    | [ "i"; t; i ] -> upd (invalidate !h (nat_of_hex t) (n_of_hex i))
    | [ "q"; t ] -> Buffer.add_string b (" " ^ str_resolve (resolve_before !h (nat_of_hex t)))
    | [ "v"; t; vs ] ->
        (match validate !h (nat_of_hex t) (versions_of vs) with
         | None -> Buffer.add_string b " P"
         | Some (ok, dep) ->
             Buffer.add_string b (Printf.sprintf " V%d,%s" (if ok then 1 else 0)
                                    (match dep with None -> "-" | Some k -> hex_of_nat k)))
    | _ -> failwith ("bad op " ^ o)) ops;
  Buffer.contents b

let gas_case cfg basefee tx gas db =
  let cfg = cfg_of cfg and basefee = n_of_hex basefee and tx = tx_of tx and g = gas_of gas in
  let r = from_gas cfg basefee tx g in
  let h = revm_hook cfg basefee tx g None (acct_of db) in
  Printf.sprintf " R%s H%s" (str_on r) (str_ojacct h)

let mode_case m cfg basefee tx gas db journal =
  let cfg = cfg_of cfg and basefee = n_of_hex basefee and tx = tx_of tx and g = gas_of gas in
  let m = if m = "D" then Deferred else Immediate in
  let db = acct_of db in
  let (j, d) = mode_apply m cfg basefee tx g (jacct_of journal) db in
  let f = option_map (finalize cfg.spec) j in
  let c = match f with None -> "-" | Some f -> str_fin (classify f) in
  (* publish into a one-transaction history anchored at the database value, read it back *)
  let h0 = new_hist db (S O) in
  let e =
    match record_execution h0 O (Npos XH) d f with
    | None -> "P"
    | Some (h1, _) -> str_resolve (resolve_before h1 (S O))
  in
  let k = match commit_fold db f d with None -> "P" | Some a -> str_oacct a in
  (Printf.sprintf " D%s J%s F%s C%s E%s" (str_on d) (str_ojacct j) (str_ojacct f) c e, k)

let () =
  try
    while true do
      let line = input_line stdin in
      let out =
        try
          match split ' ' (String.trim line) with
          | "hist" :: n :: anchor :: ops -> hist_case n anchor ops
          | [ "gas"; cfg; basefee; tx; gas; db ] -> gas_case cfg basefee tx gas db
          | [ "mode"; m; cfg; basefee; tx; gas; db; journal ] -> fst (mode_case m cfg basefee tx gas db journal)
          | [ "apply"; amt; a ] -> " " ^ str_acct (apply_to (n_of_hex amt) (acct_of a))
          | _ -> " ?"
        with Failure m -> " MODEL-DRIVER-ERROR " ^ m
      in
      print_endline out
    done
  with End_of_file -> ()
