(* Line driver for the extracted Cache models (Par = grevm ParallelState, Revm = revm State).
   Reads the cases written by harness/src/bin/cache.rs (one per line), prints for every case
     P <outputs> | <dump of the Par model>
     R <outputs> | <dump of the Revm model>
   in exactly the format the harness uses for the real implementations.  Hand-written, trusted. *)
open Cache

(* ---------- N <-> hex *)
let rec pos_of_bits = function            (* bits most significant first, head is 1 *)
  | [] -> failwith "pos"
  | [true] -> XH
  | l ->
      let rec go acc = function
        | [] -> acc
        | b :: r -> go (if b then XI acc else XO acc) r in
      (match l with true :: r -> go XH r | _ -> failwith "pos: leading zero")

let n_of_hex (s : string) : n =
  let bits = ref [] in
  String.iter (fun c ->
    let v = match c with
      | '0'..'9' -> Char.code c - 48
      | 'a'..'f' -> Char.code c - 87
      | 'A'..'F' -> Char.code c - 55
      | _ -> failwith ("hex: " ^ s) in
    bits := !bits @ [v land 8 <> 0; v land 4 <> 0; v land 2 <> 0; v land 1 <> 0]) s;
  let rec strip = function false :: r -> strip r | l -> l in
  match strip !bits with [] -> N0 | l -> Npos (pos_of_bits l)

let hex_of_n (x : n) : string =
  match x with
  | N0 -> "0"
  | Npos p ->
      let rec bits p acc = match p with     (* least significant first while descending *)
        | XH -> true :: acc
        | XO q -> bits q (false :: acc)
        | XI q -> bits q (true :: acc) in
      let l = bits p [] in                  (* most significant first *)
      let pad = (4 - (List.length l mod 4)) mod 4 in
      let l = List.init pad (fun _ -> false) @ l in
      let b = Buffer.create 16 in
      let rec go = function
        | a :: c :: d :: e :: r ->
            let v = (if a then 8 else 0) + (if c then 4 else 0) + (if d then 2 else 0) + (if e then 1 else 0) in
            Buffer.add_char b "0123456789abcdef".[v]; go r
        | [] -> ()
        | _ -> failwith "bits" in
      go l; Buffer.contents b

let rec n_compare (a : n) (b : n) : int =
  (* compare through hex strings: length first, then lexicographic *)
  let x = hex_of_n a and y = hex_of_n b in
  if String.length x <> String.length y then compare (String.length x) (String.length y) else compare x y

(* ---------- token stream *)
let toks : string array ref = ref [||]
let pos = ref 0
let next () = let t = !toks.(!pos) in incr pos; t
let next_n () = n_of_hex (next ())
let next_int () = int_of_string (next ())

let parse_info (s : string) : info option =
  if s = "-" then None else
  match String.split_on_char '.' s with
  | [b; no; h; c] ->
      Some { balance = n_of_hex b; nonce = n_of_hex no; code_hash = n_of_hex h;
             code = (if c = "-" then None else Some (n_of_hex c)) }
  | _ -> failwith ("info: " ^ s)

let some_info s = match parse_info s with Some i -> i | None -> failwith "info expected"

(* ---------- printing *)
let status_s = function
  | LoadedNotExisting -> "LNE" | Loaded -> "L" | LoadedEmptyEIP161 -> "LEE"
  | InMemoryChange -> "IMC" | Changed -> "C" | Destroyed -> "D"
  | DestroyedChanged -> "DC" | DestroyedAgain -> "DA"

let info_s = function
  | None -> "-"
  | Some i ->
      Printf.sprintf "%s.%s.%s.%s" (hex_of_n i.balance) (hex_of_n i.nonce) (hex_of_n i.code_hash)
        (match i.code with None -> "-" | Some c -> hex_of_n c)

let sort_by_key l = List.sort (fun (a, _) (b, _) -> n_compare a b) l

let trans_s (t : trans) : string =
  let slots = sort_by_key t.t_storage in
  Printf.sprintf "%s/%s/%s/%s/%d/{%s}" (info_s t.t_info) (status_s t.t_status) (info_s t.t_prev_info)
    (status_s t.t_prev_status) (if t.t_destroyed then 1 else 0)
    (String.concat ";" (List.map (fun (k, (o, p)) ->
       Printf.sprintf "%s=%s>%s" (hex_of_n k) (hex_of_n o) (hex_of_n p)) slots))

let translist_s (l : (addr * trans) list) : string =
  "[" ^ String.concat "," (List.map (fun (a, t) -> hex_of_n a ^ ":" ^ trans_s t) (sort_by_key l)) ^ "]"

let out_s (o : out) : string =
  match o with
  (* the harness observes the transitions of one call through a fresh TransitionState map, so an
     address occurring twice in one increment / drain list shows its merged transition *)
  | OutTrans ts -> "T" ^ translist_s (add_transitions [] ts)
  | OutDrain (bals, ts) ->
      "D[" ^ String.concat "," (List.map hex_of_n bals) ^ "]" ^ translist_s (add_transitions [] ts)
  | OutInfo i -> "I" ^ info_s i
  | OutWord w -> "W" ^ hex_of_n w
  | OutCode c -> "C" ^ hex_of_n c
  | OutMerged None -> "M-"
  | OutMerged (Some ts) -> "M" ^ translist_s ts
  | OutPanic -> "PANIC"

(* ---------- one case *)
type opx = Model of op | Skip            (* Skip: t / j - no effect on what the models hold *)

let run_case () =
  let bu = next () = "1" in
  (* database *)
  let ndb = next_int () in
  let basic = ref [] and stor = ref [] and codes = ref [] in
  for _ = 1 to ndb do
    let a = next_n () in
    let i = parse_info (next ()) in
    (match i with Some i -> basic := (a, i) :: !basic | None -> ());
    let ns = next_int () in
    for _ = 1 to ns do
      let k = next_n () in let v = next_n () in
      stor := ((a, k), v) :: !stor
    done
  done;
  let nc = next_int () in
  for _ = 1 to nc do
    let h = next_n () in let c = next_n () in codes := (h, c) :: !codes
  done;
  let find_n l x = List.find_opt (fun (y, _) -> n_compare x y = 0) l in
  let d = { db_basic = (fun a -> match find_n !basic a with Some (_, i) -> Some i | None -> None);
            db_storage = (fun a k ->
              match List.find_opt (fun ((a', k'), _) -> n_compare a a' = 0 && n_compare k k' = 0) !stor with
              | Some (_, v) -> v | None -> N0);
            db_code = (fun h -> match find_n !codes h with Some (_, c) -> c | None -> N0) } in
  (* operations *)
  let nops = next_int () in
  let ops = ref [] in
  for _ = 1 to nops do
    let t = next () in
    let o = match t with
      | "c" | "C" ->
          let n = next_int () in
          let es = List.init n (fun _ ->
            let a = next_n () in
            let fl = int_of_string ("0x" ^ next ()) in
            let i = some_info (next ()) in
            let oi = some_info (next ()) in
            let ns = next_int () in
            let st = List.init ns (fun _ ->
              let k = next_n () in let o = next_n () in let p = next_n () in (k, (o, p))) in
            (a, { e_info = i; e_orig_info = oi; e_touched = fl land 1 <> 0; e_created = fl land 2 <> 0;
                  e_destructed = fl land 4 <> 0; e_lne = fl land 8 <> 0; e_storage = st })) in
          Model (OCommit es)
      | "i" ->
          let n = next_int () in
          Model (OIncrement (List.init n (fun _ -> let a = next_n () in let v = next_n () in (a, v))))
      | "d" ->
          let n = next_int () in
          Model (ODrain (List.init n (fun _ -> next_n ())))
      | "b" | "B" -> Model (OBasic (next_n ()))
      | "s" | "S" -> let a = next_n () in let k = next_n () in Model (OStorage (a, k))
      | "h" | "H" -> Model (OCode (next_n ()))
      | "m" | "p" -> ignore (next ()); Model OMerge
      | "t" | "j" -> Skip
      | x -> failwith ("op: " ^ x) in
    ops := o :: !ops
  done;
  let ops = List.rev !ops in
  (* universe for the dump *)
  if next () <> "U" then failwith "U expected";
  let na = next_int () in
  let addrs = List.init na (fun _ -> next_n ()) in
  let ns = next_int () in
  let slots = List.init ns (fun _ -> let a = next_n () in let k = next_n () in (a, k)) in
  let nh = next_int () in
  let hashes = List.init nh (fun _ -> next_n ()) in
  (* Par *)
  let b = Buffer.create 256 in
  let p = ref (p_init bu) in
  (try
    List.iter (fun o ->
      match o with
      | Skip -> Buffer.add_string b " -"
      | Model o ->
          let (p1, x) = p_step d !p o in
          p := p1;
          Buffer.add_char b ' '; Buffer.add_string b (out_s x);
          if x = OutPanic then raise Exit) ops;
    raise Not_found
  with Exit -> Buffer.add_string b " | -" | Not_found -> begin
  Buffer.add_string b " | A[";
  List.iter (fun a ->
    Buffer.add_string b (hex_of_n a ^ "=" ^
      (match p_accounts !p a with Some (i, st) -> info_s i ^ "/" ^ status_s st | None -> "~") ^ " ")) addrs;
  Buffer.add_string b "] S[";
  List.iter (fun (a, k) ->
    Buffer.add_string b (hex_of_n a ^ "." ^ hex_of_n k ^ "=" ^
      (match pslot !p a k with Some v -> hex_of_n v | None -> "~") ^ " ")) slots;
  Buffer.add_string b "] K[";
  List.iter (fun h ->
    Buffer.add_string b (hex_of_n h ^ "=" ^
      (match p_contracts !p h with Some c -> hex_of_n c | None -> "~") ^ " ")) hashes;
  Buffer.add_string b "]" end);
  print_string "P"; print_endline (Buffer.contents b);
  (* Revm *)
  let b = Buffer.create 256 in
  let r = ref (r_init bu) in
  (try
    List.iter (fun o ->
      match o with
      | Skip -> Buffer.add_string b " -"
      | Model o ->
          let (r1, x) = r_step d !r o in
          r := r1;
          Buffer.add_char b ' '; Buffer.add_string b (out_s x);
          if x = OutPanic then raise Exit) ops;
    raise Not_found
  with Exit -> Buffer.add_string b " | -" | Not_found -> begin
  Buffer.add_string b " | A[";
  List.iter (fun a ->
    Buffer.add_string b (hex_of_n a ^ "=" ^
      (match r_accounts !r a with
       | Some (acc, st) -> info_s (match acc with Some (i, _) -> Some i | None -> None) ^ "/" ^ status_s st
       | None -> "~") ^ " ")) addrs;
  Buffer.add_string b "] S[";
  List.iter (fun (a, k) ->
    Buffer.add_string b (hex_of_n a ^ "." ^ hex_of_n k ^ "=" ^
      (match r_accounts !r a with
       | Some (Some (_, m), _) -> (match m k with Some v -> hex_of_n v | None -> "~")
       | _ -> "~") ^ " ")) slots;
  Buffer.add_string b "] K[";
  List.iter (fun h ->
    Buffer.add_string b (hex_of_n h ^ "=" ^
      (match r_contracts !r h with Some c -> hex_of_n c | None -> "~") ^ " ")) hashes;
  Buffer.add_string b "]" end);
  print_string "R"; print_endline (Buffer.contents b)

(* ---------- concurrent cases (Cache/Conc.v), coarse schedules: j whole commits, the reader up to
   its database fetch, m whole commits, the rest of the reader, the remaining commits.
   conc <info|-> <ndb> {k v} <preload 0|1> <nread> {k} <ncops> {cop} <key> <j> <m> <nuni> {k}
   cop: D | T | N <info> <ns> {k v} | G <info> <ns> {k v}
   prints one line per variant:  O ...  (ordering of the unchanged tree)   F ... (repaired ordering) *)
let run_conc () =
  let basic_info = parse_info (next ()) in
  let ndb = next_int () in
  let dbl = List.init ndb (fun _ -> let k = next_n () in let v = next_n () in (k, v)) in
  let dbs k = match List.find_opt (fun (k', _) -> n_compare k k' = 0) dbl with Some (_, v) -> v | None -> N0 in
  let d = { db_basic = (fun _ -> basic_info); db_storage = (fun _ k -> dbs k); db_code = (fun _ -> N0) } in
  let basic = load_pair d N0 in
  let preload = next () = "1" in
  let nread = next_int () in
  let prereads = List.init nread (fun _ -> next_n ()) in
  let ncops = next_int () in
  let slots () = let ns = next_int () in List.init ns (fun _ -> let k = next_n () in let v = next_n () in (k, v)) in
  let cops = List.init ncops (fun _ ->
    match next () with
    | "D" -> CDestroy
    | "T" -> CTouchEmpty
    | "N" -> let i = some_info (next ()) in let sl = slots () in CCreate (i, sl)
    | "G" -> let i = some_info (next ()) in let sl = slots () in CChange (i, sl)
    | x -> failwith ("cop: " ^ x)) in
  let key = next_n () in
  let j = next_int () in
  let m = next_int () in
  let nuni = next_int () in
  let uni = List.init nuni (fun _ -> next_n ()) in
  let one vt tag =
    (* the readers: pre-reads (sequential, before anything else), then the gated reader (last) *)
    let keys = prereads @ [key] in
    let s = ref (init None fempty cops keys) in
    let st w = s := step vt basic dbs !s w in
    let rec nat_of_int n = if n <= 0 then O else S (nat_of_int (n - 1)) in
    let reader_done i = match List.nth (c_readers !s) i with RDone _ -> true | _ -> false in
    let run_reader_fully i = let g = ref 0 in while not (reader_done i) && !g < 10 do st (WReader (nat_of_int i)); incr g done in
    (* the account is loaded before the pre-reads, or after them (reads of an uncached account) *)
    if preload then st WLoad;
    List.iteri (fun i _ -> run_reader_fully i) prereads;
    if not preload then st WLoad;
    let commit_one () =
      let target = List.length (c_pending !s) - 1 in
      let g = ref 0 in
      while (List.length (c_pending !s) > target || (match c_pc !s with CIdle -> false | CIns [] -> false | _ -> true)) && !g < 50 do
        st WCommit; incr g done in
    for _ = 1 to j do commit_one () done;
    let ri = List.length prereads in
    (* the gated reader runs until it has fetched from the database (or is done without a fetch) *)
    let at_fetch () = match List.nth (c_readers !s) ri with
      | RFetched _ -> true | RDone _ -> true
      | RChecked (_, kn) -> false | _ -> false in
    let fetched_from_db = ref false in
    let g = ref 0 in
    while not (at_fetch ()) && !g < 10 do
      (match List.nth (c_readers !s) ri with RChecked (_, false) -> fetched_from_db := true | _ -> ());
      st (WReader (nat_of_int ri)); incr g done;
    (* commits that happen while the database call is in flight - only if there was one *)
    if !fetched_from_db then for _ = 1 to m do commit_one () done;
    run_reader_fully ri;
    let g = ref 0 in
    while c_pending !s <> [] && !g < 20 do commit_one (); incr g done;
    commit_one ();
    let b = Buffer.create 128 in
    Buffer.add_string b tag;
    (match List.nth (c_readers !s) ri with
     | RDone (_, v) -> Buffer.add_string b (" ret=" ^ hex_of_n v)
     | _ -> Buffer.add_string b " ret=?");
    Buffer.add_string b (" gated=" ^ (if !fetched_from_db then "1" else "0"));
    (match c_acct !s with
     | Some (i, stt) -> Buffer.add_string b (" acct=" ^ info_s i ^ "/" ^ status_s stt)
     | None -> Buffer.add_string b " acct=~");
    List.iter (fun k ->
      Buffer.add_string b (" " ^ hex_of_n k ^ "=" ^
        (match c_slots !s k with Some v -> hex_of_n v | None -> "~") ^ ":" ^
        hex_of_n (answer dbs (c_acct !s) (c_slots !s) k) ^ ":" ^
        hex_of_n (answer dbs (c_acct !s) (c_ghost !s) k))) uni;
    print_endline (Buffer.contents b) in
  one original "O";
  one repaired "F"

let () =
  try
    while true do
      let line = input_line stdin in
      let l = List.filter (fun s -> s <> "") (String.split_on_char ' ' (String.trim line)) in
      match l with
      | "case" :: rest ->
          toks := Array.of_list rest; pos := 0;
          (try run_case () with e ->
             print_endline ("P DRIVER-ERROR " ^ Printexc.to_string e);
             print_endline ("R DRIVER-ERROR " ^ Printexc.to_string e))
      | "conc" :: rest ->
          toks := Array.of_list rest; pos := 0;
          (try run_conc () with e ->
             print_endline ("O DRIVER-ERROR " ^ Printexc.to_string e);
             print_endline ("F DRIVER-ERROR " ^ Printexc.to_string e))
      | _ -> print_endline "P ?"; print_endline "R ?"
    done
  with End_of_file -> ()
