(* Line driver for the extracted Cursor model: reads cases from stdin (format of objseq.rs),
   prints what the model returns, in the format of the .impl file. *)
open Cursor
let rec nat_of_int n = if n <= 0 then O else S (nat_of_int (n - 1))
let rec int_of_nat = function O -> 0 | S n -> 1 + int_of_nat n

let () =
  try
    while true do
      let line = input_line stdin in
      match String.split_on_char ' ' (String.trim line) with
      | "cursor" :: init :: ops ->
          let b = Buffer.create 64 in
          (* run both the sequential reference and the acceptor on the generated event list *)
          let c = ref (nat_of_int (int_of_string init)) in
          let st = ref (Some (Cursor.init !c)) in
          List.iter (fun o ->
            let k = o.[0] and v = nat_of_int (int_of_string (String.sub o 1 (String.length o - 1))) in
            let op = if k = 'c' then SClaim v else SRewind v in
            let (c', r) = sstep !c op in
            (match !st with
             | Some s ->
                 let evs = events_of O (newest_pos s) (cur s) op in
                 st := run s evs
             | None -> ());
            (match r with
             | RNone -> Buffer.add_string b " N"
             | RSome i -> Buffer.add_string b (Printf.sprintf " S%d" (int_of_nat i))
             | RPrev p -> Buffer.add_string b (Printf.sprintf " P%d" (int_of_nat p)));
            c := c') ops;
          (match !st with
           | Some s when int_of_nat (cur s) = int_of_nat !c -> ()
           | Some _ -> Buffer.add_string b " ACCEPTOR-DISAGREES"
           | None -> Buffer.add_string b " ACCEPTOR-REJECTS");
          Buffer.add_string b (Printf.sprintf " =%d" (int_of_nat !c));
          print_endline (Buffer.contents b)
      | _ -> print_endline "?"
    done
  with End_of_file -> ()
