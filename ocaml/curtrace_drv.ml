(* C15 (validation cursor, concurrent) trace acceptor: maps cursor hook events of concurrent
   claimers and rewinders to Cursor.Model events.  Per case:
   - direct predicates on the implementation's values, independent of the model (DIRECT ...): a
     claimed index is below the limit it was claimed with; after a rewind to v that returned the
     previous position p every index in [v, p) is claimed again later or still ahead of the final
     cursor; no index is claimed twice without a rewind at or below it in between,
   - the extracted acceptor accepts every event (REJECT otherwise); the driver's runs are
     sequentially consistent, so a load must return the newest value and a rewind must report the
     newest value as the previous position,
   - the model's final cursor equals the real one (STATE-MISMATCH). *)
open Cursor
let rec nat_of_int n = if n <= 0 then O else S (nat_of_int (n - 1))
let rec int_of_nat = function O -> 0 | S n -> 1 + int_of_nat n
let n = nat_of_int
let i = int_of_nat

let field header key =
  let w = List.find (fun w -> String.length w > String.length key && String.sub w 0 (String.length key + 1) = key ^ "=") (String.split_on_char ' ' header) in
  String.sub w (String.length key + 1) (String.length w - String.length key - 1)

exception Rej of string
exception Direct of string

let () =
  let ic = open_in Sys.argv.(1) in
  let cur_lines = ref [] and header = ref "" in
  let flush_case () =
    if !header <> "" then begin
      let lines = List.rev !cur_lines in
      let start = int_of_string (field !header "start") in
      let final = int_of_string (field !header "final_cursor") in
      (try
        (* pass 1: direct predicates *)
        let evs = List.mapi (fun ln l -> (ln, String.split_on_char ' ' l)) lines in
        let claims = List.filter_map (fun (ln, t) -> match t with _ :: "cur_cas" :: "1" :: c :: _ -> Some (ln, int_of_string c) | _ -> None) evs in
        let rewinds = List.filter_map (fun (ln, t) -> match t with _ :: "cur_rewind" :: v :: p :: _ -> Some (ln, int_of_string v, int_of_string p) | _ -> None) evs in
        List.iter (fun (ln, t) -> match t with
          | _ :: "cur_rewound" :: v :: t0 :: lower :: _ ->
            if int_of_string lower <= int_of_string t0 then
              raise (Direct (Printf.sprintf "rewind_validation_to(%s) returned with lower_timestamp = %s, not newer than the timestamp %s issued before the call: a validation that predates the rewind could become final (line %d)" v lower t0 ln))
          | _ :: "cur_result" :: g :: lim :: _ ->
            let g = int_of_string g and lim = int_of_string lim in
            if g >= lim then raise (Direct (Printf.sprintf "claim with limit %d returned %d (line %d)" lim g ln))
          | _ -> ()) evs;
        (* the rewind timestamp is published before the cursor is rewound: a reader that sees the
           rewound cursor must also see the timestamp (context.rs:  tick, lower_timestamps, rewind) *)
        let pending = Hashtbl.create 8 in
        List.iter (fun (ln, t) -> match t with
          | tid :: "cur_call_rewind" :: _ -> Hashtbl.replace pending tid false
          | tid :: "lower_max" :: _ -> if Hashtbl.mem pending tid then Hashtbl.replace pending tid true
          | tid :: "cur_rewind" :: v :: _ ->
            (match Hashtbl.find_opt pending tid with
             | Some false -> raise (Direct (Printf.sprintf "rewind_validation_to(%s) rewound the cursor before publishing its timestamp (line %d): a finality check that sees the rewound cursor can still read the old lower timestamp" v ln))
             | _ -> ());
            Hashtbl.remove pending tid
          | _ -> ()) evs;
        List.iter (fun (ln, v, p) ->
          for x = v to p - 1 do
            if not (List.exists (fun (cl, c) -> cl > ln && c = x) claims) && final > x then
              raise (Direct (Printf.sprintf "rewind to %d returned previous position %d (line %d) but index %d was never claimed again and the final cursor is %d" v p ln x final))
          done) rewinds;
        List.iter (fun (l1, c1) ->
          List.iter (fun (l2, c2) ->
            if c1 = c2 && l1 < l2 && not (List.exists (fun (lr, v, _) -> lr > l1 && lr < l2 && v <= c1) rewinds) then
              raise (Direct (Printf.sprintf "index %d was claimed twice (lines %d and %d) with no rewind at or below it in between" c1 l1 l2))) claims) claims;
        (* pass 2: the acceptor *)
        let s = ref (init (n start)) in
        let nev = ref 0 in
        let apply what e = match step !s e with Some s' -> s := s'; incr nev | None -> raise (Rej what) in
        let newest () = n (List.length !s.hist - 1) in
        List.iter (fun (ln, t) -> match t with
          | tid :: kind :: args ->
            let th = n (max 0 (int_of_string tid)) in
            let a = Array.of_list (List.map (fun x -> try int_of_string x with _ -> -1) args) in
            let what = Printf.sprintf "line %d `%s`" ln (String.concat " " t) in
            (match kind with
             | "cur_load" ->
               (match !s.pcs th with Idle -> apply what (CallClaim (th, n a.(1))) | _ -> ());
               if i (cur !s) <> a.(0) then raise (Rej (what ^ Printf.sprintf ": the load returned %d, the newest value is %d (sequentially consistent run)" a.(0) (i (cur !s))));
               apply what (Load (th, newest ()));
               if a.(0) >= a.(1) then apply what (RetNone th)
             | "cur_cas" -> apply what (if a.(0) = 1 then CasOk th else CasFail th)
             | "cur_rewind" ->
               if i (cur !s) <> a.(1) then raise (Rej (what ^ Printf.sprintf ": rewind reports previous position %d, the newest value is %d" a.(1) (i (cur !s))));
               apply what (Rewind (th, n a.(0)))
             | _ -> ())
          | _ -> ()) evs;
        if i (cur !s) <> final then Printf.printf "STATE-MISMATCH model cursor %d real %d | %s\n" (i (cur !s)) final !header
        else Printf.printf "ACCEPT events=%d claims=%d rewinds=%d effective_rewinds=%d\n" !nev (List.length claims) (List.length rewinds)
            (List.length (List.filter (fun (_, v, p) -> v < p) rewinds))
      with
      | Rej w -> Printf.printf "REJECT %s | %s\n" w !header
      | Direct w -> Printf.printf "DIRECT %s | %s\n" w !header)
    end; cur_lines := []; header := "" in
  (try while true do
       let l = input_line ic in
       if l = "--" then flush_case ()
       else if String.length l > 0 && l.[0] = '#' then header := l
       else cur_lines := l :: !cur_lines
     done with End_of_file -> flush_case ())
