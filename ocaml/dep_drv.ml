(* C16 trace acceptor: maps tx_dependency hook events to Dep.Model events; compares the model's
   final state with the snapshot of the real object. *)
open Dep
let rec nat_of_int n = if n <= 0 then O else S (nat_of_int (n - 1))
let rec int_of_nat = function O -> 0 | S n -> 1 + int_of_nat n
let n = nat_of_int
let opt x = if x < 0 then None else Some (n x)

let () =
  let ic = open_in Sys.argv.(1) in
  let cur = ref [] and header = ref "" in
  let flush_case () =
    if !header <> "" then begin
      let lines = List.rev !cur in
      let ntx = try Scanf.sscanf (List.find (fun w -> String.length w > 2 && String.sub w 0 2 = "n=") (String.split_on_char ' ' !header)) "n=%d" (fun x -> x) with _ -> 4 in
      let evs = ref [] in
      List.iter (fun l -> match String.split_on_char ' ' l with
          | tid :: kind :: args ->
            let t = n (max 0 (int_of_string tid)) in
            let a = Array.of_list (List.map (fun x -> try int_of_string x with _ -> -1) args) in
            (match kind with
             | "dep_next_full" -> evs := NextFull t :: !evs
             | "dep_next_fetch" -> evs := NextFetch (t, n a.(0)) :: !evs
             | "dep_next_claim" -> evs := NextClaim (t, n a.(0), a.(1) = 1) :: !evs
             | "dep_remove_begin" -> evs := RemoveBegin (t, n a.(0), a.(1) = 1, n a.(2)) :: !evs
             | "dep_release" -> evs := Release (t, n a.(0), n a.(1), n a.(2)) :: !evs
             | "dep_remove_end" -> evs := RemoveEnd (t, n a.(0), opt a.(1)) :: !evs
             | "commit_publish" -> evs := PublishCommit (n a.(0)) :: !evs
             | "dep_commit_call" -> if a.(0) + 1 >= ntx then evs := Commit (t, n a.(0), false) :: !evs
             | "dep_commit" -> evs := Commit (t, n a.(0), a.(1) = 1) :: !evs
             | "dep_key_tx" -> evs := KeyTx (t, n a.(0), n a.(1), opt a.(2)) :: !evs
             | "dep_add" -> if a.(1) >= 0 then evs := AddDep (t, n a.(0), n a.(1), opt a.(2)) :: !evs
               else evs := AddNone (t, n a.(0), a.(2) = 1) :: !evs
             | _ -> ())
          | _ -> ()) lines;
      let evs = List.rev !evs in
      let (sfin, rej) = drun_diag (dinit (n ntx)) evs O in
      (match rej with
       | Some i -> Printf.printf "REJECT at_model_event=%d %s\n" (int_of_nat i) !header
       | None ->
         let b = Buffer.create 64 in
         Buffer.add_string b (Printf.sprintf "final_index=%d states=[" (int_of_nat sfin.index));
         for x = 0 to ntx - 1 do
           if x > 0 then Buffer.add_string b ", ";
           Buffer.add_string b (Printf.sprintf "(%b, %s)" (sfin.onboard (n x))
                                  (match sfin.dep (n x) with None -> "None" | Some d -> Printf.sprintf "Some(%d)" (int_of_nat d)))
         done;
         Buffer.add_string b "] affects=[";
         for x = 0 to ntx - 1 do
           if x > 0 then Buffer.add_string b ", ";
           let l = List.sort compare (List.map int_of_nat (sfin.affect (n x))) in
           Buffer.add_string b ("[" ^ String.concat ", " (List.map string_of_int l) ^ "]")
         done;
         Buffer.add_string b "]";
         let model = Buffer.contents b in
         (* the header carries the real snapshot in the same format *)
         let real = try let i = Str.search_forward (Str.regexp_string "final_index=") !header 0 in String.sub !header i (String.length !header - i) with Not_found -> "" in
         if model = real then Printf.printf "ACCEPT events=%d claims=%d %s\n" (List.length evs) (List.length sfin.claims) model
         else Printf.printf "STATE-MISMATCH model{%s} real{%s}\n" model real)
    end; cur := []; header := "" in
  (try while true do
       let l = input_line ic in
       if l = "--" then flush_case ()
       else if String.length l > 0 && l.[0] = '#' then header := l
       else cur := l :: !cur
     done with End_of_file -> flush_case ())
