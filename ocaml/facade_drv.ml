(* Line driver for the extracted Facade model (C11): reads the cases written by
   harness/src/bin/facade.rs from stdin and prints what the model says the real facade/adapter do
   (format of facade.impl).

   The model is parametric in the journal.  Here the journal is an ORACLE: operation number i of
   the script asks the journal for answer i of the case line ('o' = the journal call succeeds,
   'e' = it fails with a database error, 'u' = the reference run never reached the journal for
   this operation).  An operation's address field carries its index. *)
open Facade

type halt = HStatic | HImpl
type fatal = FDb | FImpl
type out = OutImpl of string | OutHalt of halt * string

let unexpected = ref false

let answer (answers : char array) (i : int) : (unit, unit) jres =
  match answers.(i) with
  | 'o' -> JOk ()
  | 'e' -> JErr ()
  | _ -> unexpected := true; JOk ()

let () =
  try
    while true do
      let line = input_line stdin in
      match String.split_on_char ' ' (String.trim line) with
      | "fac" :: st :: reservoir :: ret :: toks ->
          let toks = List.filter (fun t -> t <> "") toks in
          let answers = Array.of_list (List.map (fun t -> t.[2]) toks) in
          unexpected := false;
          let ops = List.mapi (fun i t ->
            let o = match t.[0] with
              | 'b' -> OBalance i
              | 'l' -> OSload (i, "k")
              | 'B' -> OSetBalance (i, "v")
              | 'S' -> OSstore (i, "k", "v")
              | c -> failwith (Printf.sprintf "op %c" c) in
            (o, if t.[1] = 'p' then Propagate else Ignore)) toks in
          let impl_ret = match ret with
            | "O" -> Ok (OutImpl "OK")
            | "R" -> Ok (OutImpl "REVERT")
            | "H" -> Err (PHalt HImpl)
            | "F" -> Err (PFatal FImpl)
            | s -> failwith ("ret " ^ s) in
          (* journal state = number of journal calls made so far *)
          let j_load j a = (j + 1, answer answers a) in
          let j_sload j a _ = (j + 1, answer answers a) in
          let j_sstore j a _ _ = (j + 1, answer answers a) in
          let j_load_mut j a = (j + 1, answer answers a) in
          let j_set_balance j _ _ = j in
          let (b, a) =
            adapter_call j_load j_sload j_sstore j_load_mut j_set_balance (fun x -> x) (fun x -> x)
              HStatic (fun () -> FDb) (fun h r -> OutHalt (h, r))
              (st = "1") reservoir ops impl_ret 0 in
          let buf = Buffer.create 64 in
          List.iter (fun r ->
            Buffer.add_string buf (match r with
              | Ok _ -> "ok "
              | Err (PHalt HStatic) -> "H "
              | Err (PHalt HImpl) -> "h "
              | Err (PFatal FDb) -> "F "
              | Err (PFatal FImpl) -> "f ")) b.br_results;
          let ncalls = List.length b.br_calls in
          let cls = match a with
            | Ok (OutImpl s) -> s
            | Ok (OutHalt (HStatic, r)) -> "HALT:static:" ^ r
            | Ok (OutHalt (HImpl, r)) -> "HALT:impl:" ^ r
            | Err FDb -> "FATAL:db"
            | Err FImpl -> "FATAL:impl" in
          Printf.printf "%s| calls=%d | %s%s%s\n" (Buffer.contents buf) ncalls cls
            (if ncalls <> b.br_journal then " CALL-LOG-MISMATCH" else "")
            (if !unexpected then " UNEXPECTED-JOURNAL-CALL" else "")
      | _ -> print_endline "?"
    done
  with End_of_file -> ()
