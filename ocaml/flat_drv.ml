(* Line driver for the extracted Flat model: reads the command stream written by harness/src/bin/flat.rs
   from stdin and prints what the model returns, in the format of flat.impl. *)
open Flat

let rec nat_of_int n = if n <= 0 then O else S (nat_of_int (n - 1))
let rec int_of_nat = function O -> 0 | S n -> 1 + int_of_nat n

(* ---- N <-> hex *)
let n_double = function N0 -> N0 | Npos p -> Npos (XO p)
let n_succ_double = function N0 -> Npos XH | Npos p -> Npos (XI p)
let hexval c =
  match c with
  | '0' .. '9' -> Char.code c - 48
  | 'a' .. 'f' -> Char.code c - 87
  | _ -> failwith ("bad hex digit " ^ String.make 1 c)
let n_of_hex (s : string) : n =
  let acc = ref N0 in
  String.iter (fun c ->
    let v = hexval c in
    List.iter (fun b -> acc := if v land b <> 0 then n_succ_double !acc else n_double !acc) [8; 4; 2; 1]) s;
  !acc
let rec pos_bits = function XH -> [1] | XO p -> 0 :: pos_bits p | XI p -> 1 :: pos_bits p
let hex_of_n (x : n) : string =
  match x with
  | N0 -> "0"
  | Npos p ->
      let bits = pos_bits p in (* lsb first *)
      let rec groups = function
        | [] -> []
        | [a] -> [a]
        | [a; b] -> [a + 2 * b]
        | [a; b; c] -> [a + 2 * b + 4 * c]
        | a :: b :: c :: d :: r -> (a + 2 * b + 4 * c + 8 * d) :: groups r in
      let ds = List.rev (groups bits) in
      String.concat "" (List.map (fun d -> String.make 1 "0123456789abcdef".[d]) ds)
let hex_of_int i = Printf.sprintf "%x" i
let int_of_hex s = int_of_string ("0x" ^ s)

(* code tokens: x<hex bytes> | - ; identity of the bytes = N of "1"^hex *)
let code_of_tok t = if t = "-" then None else Some (n_of_hex ("1" ^ String.sub t 1 (String.length t - 1)))
let tok_of_code = function
  | None -> "-"
  | Some c -> let h = hex_of_n c in "x" ^ String.sub h 1 (String.length h - 1)

let info_of_tok t =
  if t = "none" then None
  else match String.split_on_char ',' t with
    | ["i"; b; n; h; c] -> Some { i_bal = n_of_hex b; i_nonce = n_of_hex n; i_hash = n_of_hex h; i_code = code_of_tok c }
    | _ -> failwith ("bad info " ^ t)
let tok_of_info = function
  | None -> "none"
  | Some i -> Printf.sprintf "i,%s,%s,%s,%s" (hex_of_n i.i_bal) (hex_of_n i.i_nonce) (hex_of_n i.i_hash) (tok_of_code i.i_code)

let loc_of_tok t =
  let body = String.sub t 1 (String.length t - 1) in
  match t.[0] with
  | 'B' -> LBasic (n_of_hex body)
  | 'R' -> LReset (n_of_hex body)
  | 'C' -> LCode (n_of_hex body)
  | 'S' -> (match String.split_on_char '.' body with
            | [a; s] -> LStorage (n_of_hex a, n_of_hex s)
            | _ -> failwith "bad loc")
  | _ -> failwith "bad loc"
let tok_of_loc = function
  | LBasic a -> "B" ^ hex_of_n a
  | LStorage (a, s) -> "S" ^ hex_of_n a ^ "." ^ hex_of_n s
  | LReset a -> "R" ^ hex_of_n a
  | LCode a -> "C" ^ hex_of_n a

let val_of_tok t =
  if t = "vr" then VReset
  else
    let body = String.sub t 3 (String.length t - 3) in
    match String.sub t 0 3 with
    | "vb:" -> VBasic (info_of_tok body)
    | "vc:" -> (match code_of_tok body with Some c -> VCode c | None -> failwith "bad code value")
    | "vs:" -> VStorage (n_of_hex body)
    | _ -> failwith ("bad value " ^ t)
let tok_of_val = function
  | VBasic i -> "vb:" ^ tok_of_info i
  | VCode c -> "vc:" ^ tok_of_code (Some c)
  | VStorage v -> "vs:" ^ hex_of_n v
  | VReset -> "vr"

let tok_of_ver = function
  | RMv (k, i) -> Printf.sprintf "m%x.%x" (int_of_nat k) (int_of_nat i)
  | RBen tag -> "b" ^ hex_of_n tag
  | RStorage -> "s"

let print_accesses (a : accesses) blocked =
  let reads = List.sort compare (List.map (fun (l, v) -> tok_of_loc l ^ "=" ^ tok_of_ver v) a.acc_reads) in
  let writes = List.sort_uniq compare (List.map tok_of_loc a.acc_writes) in
  let blocking = List.sort compare (List.map int_of_nat a.acc_block) in
  Printf.printf "acc R[%s] W[%s] B[%s] bb=%d blk=%d\n" (String.concat "," reads) (String.concat "," writes)
    (String.concat "," (List.map hex_of_int blocking)) (if a.acc_bben then 1 else 0) (if blocked then 1 else 0)

(* ---- per-case state *)
let mv = ref mv_empty
let locs : (string, loc) Hashtbl.t = Hashtbl.create 64   (* every location ever written *)
let maxk = ref 0
let b_acct : (string, info option res) Hashtbl.t = Hashtbl.create 16
let b_stor : (string, n res) Hashtbl.t = Hashtbl.create 16
let b_codes : (string, n res) Hashtbl.t = Hashtbl.create 16
let ben = ref N0
let states : istate array = Array.make 4 (begin_incarnation O O)

let backing = {
  b_basic = (fun a -> match Hashtbl.find_opt b_acct (hex_of_n a) with Some r -> r | None -> Ok None);
  b_code = (fun h -> match Hashtbl.find_opt b_codes (hex_of_n h) with Some r -> r | None -> Err);
  b_storage = (fun a s -> match Hashtbl.find_opt b_stor (hex_of_n a ^ "." ^ hex_of_n s) with Some r -> r | None -> Ok N0);
}
let bmatch a = (hex_of_n a = hex_of_n !ben)

let note_loc l k = Hashtbl.replace locs (tok_of_loc l) l; if k > !maxk then maxk := k

let dump () =
  let rows = ref [] in
  Hashtbl.iter (fun name l ->
    for k = 0 to !maxk do
      match !mv l (nat_of_int k) with
      | Some e -> rows := Printf.sprintf "%s@%x/%x/%d=%s" name k (int_of_nat e.e_inc) (if e.e_est then 1 else 0) (tok_of_val e.e_data) :: !rows
      | None -> ()
    done) locs;
  Printf.printf "mv %s\n" (String.concat ";" (List.sort compare !rows))

let rec take_accounts n toks acc =
  if n = 0 then (List.rev acc, toks)
  else match toks with
    | a :: flags :: info :: m :: rest ->
        let m = int_of_hex m in
        let rec slots m toks sl =
          if m = 0 then (List.rev sl, toks)
          else match toks with
            | s :: o :: p :: r -> slots (m - 1) r (((n_of_hex s, n_of_hex o), n_of_hex p) :: sl)
            | _ -> failwith "bad slots" in
        let (sl, rest) = slots m rest [] in
        let i = match info_of_tok info with Some i -> i | None -> failwith "account info" in
        let acct = { a_touched = flags.[0] = '1'; a_selfdestructed = flags.[1] = '1'; a_created = flags.[2] = '1';
                     a_info = i; a_slots = sl } in
        take_accounts (n - 1) rest ((n_of_hex a, acct) :: acc)
    | _ -> failwith "bad accounts"

let () =
  try
    while true do
      let line = input_line stdin in
      match String.split_on_char ' ' (String.trim line) with
      | "case" :: i :: _kind :: "ben" :: b :: _ ->
          mv := mv_empty; Hashtbl.reset locs; maxk := 0;
          Hashtbl.reset b_acct; Hashtbl.reset b_stor; Hashtbl.reset b_codes;
          ben := n_of_hex b;
          Array.fill states 0 4 (begin_incarnation O O);
          Printf.printf "case %s\n" i
      | ["base"; "acct"; a; v] ->
          Hashtbl.replace b_acct (hex_of_n (n_of_hex a)) (if v = "err" then Err else Ok (info_of_tok v))
      | ["base"; "stor"; a; s; v] ->
          Hashtbl.replace b_stor (hex_of_n (n_of_hex a) ^ "." ^ hex_of_n (n_of_hex s)) (if v = "err" then Err else Ok (n_of_hex v))
      | ["base"; "code"; h; v] ->
          Hashtbl.replace b_codes (hex_of_n (n_of_hex h))
            (if v = "err" then Err else match code_of_tok v with Some c -> Ok c | None -> Err)
      | ["raw"; l; k; inc; est; v] ->
          let l = loc_of_tok l and k = int_of_hex k in
          note_loc l k;
          mv := mv_insert !mv l (nat_of_int k) { e_inc = nat_of_int (int_of_hex inc); e_data = val_of_tok v; e_est = (est = "1") }
      | ["rm"; l; k] ->
          mv := mv_remove !mv (loc_of_tok l) (nat_of_int (int_of_hex k))
      | ["begin"; h; k; inc] ->
          states.(int_of_string h) <- begin_incarnation (nat_of_int (int_of_hex k)) (nat_of_int (int_of_hex inc))
      | "basic" :: h :: a :: rest ->
          let h = int_of_string h in
          let bres = match rest with
            | ["bok"; i; tag] -> (fun _ -> BenOk (info_of_tok i, n_of_hex tag))
            | ["bblk"; k] -> (fun _ -> BenBlocked (nat_of_int (int_of_hex k)))
            | _ -> (fun _ -> BenBlocked O) in
          let (st, r) = do_basic states.(h) !mv backing bmatch bres (n_of_hex a) in
          states.(h) <- st;
          (match r with Ok i -> Printf.printf "= %s\n" (tok_of_info i) | Err -> print_endline "= err")
      | ["storage"; h; a; s] ->
          let h = int_of_string h in
          let (st, r) = do_storage states.(h) !mv backing (n_of_hex a) (n_of_hex s) in
          states.(h) <- st;
          (match r with Ok v -> Printf.printf "= %s\n" (hex_of_n v) | Err -> print_endline "= err")
      | ["codehash"; _h; hash] ->
          (match backing.b_code (n_of_hex hash) with
           | Ok c -> Printf.printf "= %s\n" (tok_of_code (Some c))
           | Err -> print_endline "= err")
      | "finish" :: h :: n :: rest ->
          let h = int_of_string h in
          let (changes, _) = take_accounts (int_of_hex n) rest [] in
          let ((st, m'), acc) = do_finish states.(h) !mv bmatch changes in
          let k = int_of_nat states.(h).is_txid in
          List.iter (fun l -> note_loc l k) acc.acc_writes;
          states.(h) <- st; mv := m';
          print_accesses acc (acc.acc_block <> [])
      | ["discard"; h] ->
          let h = int_of_string h in
          let (st, acc) = do_discard states.(h) in
          states.(h) <- st;
          print_accesses acc (acc.acc_block <> [])
      | ["dump"] -> dump ()
      | ["end"] -> ()
      | [""] -> ()
      | _ -> print_endline ("? " ^ line)
    done
  with End_of_file -> ()
