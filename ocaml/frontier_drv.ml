(* C15 (frontier) trace acceptor: maps ExecutionFrontier hook events to Frontier.Model events,
   infers the silent ScanEnd step, and checks three things per case:
   - the extracted acceptor fstep accepts every event (REJECT otherwise),
   - direct predicates on the implementation's values, independent of the model (DIRECT ...):
     a value returned by current() has every flag below it stored before, and is at least the
     number of leading indices whose publish() had returned when the call started; at quiescence
     the frontier equals the first unpublished index,
   - the model's final frontier / flags equal the real object's (STATE-MISMATCH). *)
open Frontier
let rec nat_of_int n = if n <= 0 then O else S (nat_of_int (n - 1))
let rec int_of_nat = function O -> 0 | S n -> 1 + int_of_nat n
let n = nat_of_int
let i = int_of_nat

let field header key =
  let w = List.find (fun w -> String.length w > String.length key && String.sub w 0 (String.length key + 1) = key ^ "=") (String.split_on_char ' ' header) in
  String.sub w (String.length key + 1) (String.length w - String.length key - 1)

exception Rej of string
exception Direct of string

let () =
  let ic = open_in Sys.argv.(1) in
  let cur = ref [] and header = ref "" in
  let flush_case () =
    if !header <> "" then begin
      let lines = List.rev !cur in
      let ntx = int_of_string (field !header "n") in
      let s = ref (finit (n ntx)) in
      let nev = ref 0 in
      let stored = Array.make ntx false in
      let expect_ret = Hashtbl.create 8 in
      let apply what e =
        match fstep !s e with
        | Some s' -> s := s'; incr nev
        | None -> raise (Rej what) in
      (* newest position holding value v that this thread may still read *)
      let pos_of t v =
        let h = Array.of_list (List.map i !s.fhist) in
        let view = i (!s.fview (n t)) in
        let p = ref (-1) in
        Array.iteri (fun k x -> if x = v && k >= view then p := k) h;
        if !p < 0 then raise (Rej (Printf.sprintf "load returned %d, not a readable frontier value" v));
        n !p in
      let pending_scan_end t =
        match !s.fpcs (n t) with
        | FAdv (_, _, _, e) when i e = ntx -> apply "ScanEnd" (ScanEnd (n t))
        | _ -> () in
      (try
        (* pass 1: direct predicates on the implementation's values, independent of the model *)
        let st = Array.make ntx false in
        List.iteri (fun ln l -> match String.split_on_char ' ' l with
          | _ :: "fr_flag_store" :: x :: _ -> st.(int_of_string x) <- true
          | _ :: "fr_result" :: v :: lo :: _ ->
            let v = int_of_string v and lo = int_of_string lo in
            for k = 0 to v - 1 do
              if k >= ntx || not st.(k) then raise (Direct (Printf.sprintf "current() returned %d but executed[%d] had not been stored (line %d)" v k ln))
            done;
            if v < lo then raise (Direct (Printf.sprintf "current() returned %d although publish() had returned for every index below %d (line %d)" v lo ln))
          | _ :: "fr_fetch_max" :: v :: _ ->
            let v = int_of_string v in
            for k = 0 to v - 1 do
              if k >= ntx || not st.(k) then raise (Direct (Printf.sprintf "the frontier was advanced to %d but executed[%d] had not been stored (line %d)" v k ln))
            done
          | _ -> ()) lines;
        (let real_f = int_of_string (field !header "final_frontier") and want = int_of_string (field !header "first_unpublished") in
         if real_f <> want then raise (Direct (Printf.sprintf "at quiescence the frontier is %d but the first unpublished index is %d" real_f want)));
        (* pass 2: the extracted acceptor.  The driver's interleavings are sequentially consistent, so a
           flag load that returns false for a stored flag cannot come from the real code: reject it
           although the model (which also covers weaker memory) would accept it as a stale load *)
        let cur_flag_set = Hashtbl.create 8 in
        List.iteri (fun ln l -> match String.split_on_char ' ' l with
          | tid :: kind :: args ->
            let t = max 0 (int_of_string tid) in
            let a = Array.of_list (List.map (fun x -> try int_of_string x with _ -> -1) args) in
            let what = Printf.sprintf "line %d `%s`" ln l in
            (match kind with
             | "fr_pub_load1" -> pending_scan_end t; apply what (PubLoad1 (n t, n a.(0), pos_of t a.(1)))
             | "fr_flag_store" -> stored.(a.(0)) <- true; apply what (FlagStore (n t, n a.(0)))
             | "fr_pub_load2" -> apply what (PubLoad2 (n t, n a.(0), pos_of t a.(1)))
             | "fr_flag_load" ->
               if a.(1) = 0 && stored.(a.(0)) then raise (Rej (what ^ ": flag load returned false for a stored flag in a sequentially consistent run"));
               apply what (FlagLoad (n t, n a.(0), a.(1) = 1))
             | "fr_fetch_max" -> pending_scan_end t; apply what (FetchMax (n t, n a.(0), n a.(1)))
             | "fr_cur_load" -> pending_scan_end t; apply what (CurLoad (n t, pos_of t a.(0)));
               Hashtbl.replace cur_flag_set t (a.(0) < ntx && stored.(a.(0)))
             | "fr_cur_flag" -> apply what (CurFlag (n t, a.(1) = 1))
             | "fr_cur_ret" ->
               pending_scan_end t;
               (match !s.fpcs (n t) with
                | FCur (_, f) ->
                  if Hashtbl.find_opt cur_flag_set t = Some true then raise (Rej (what ^ ": current() did not help although executed[frontier] was stored (sequentially consistent run)"));
                  Hashtbl.replace expect_ret t (i f); apply what (CurFlag (n t, false))
                | FCurRet _ -> ()
                | _ -> raise (Rej (what ^ ": current() returns but the model is not in a returning state")))
             | "fr_result" ->
               let v = a.(0) and lo = a.(1) in
               (match !s.fpcs (n t) with
                | FCurRet _ -> apply what (CurRet (n t, pos_of t v))
                | FIdle -> (match Hashtbl.find_opt expect_ret t with
                    | Some f when f = v -> Hashtbl.remove expect_ret t
                    | _ -> raise (Rej (what ^ ": current() returned a value the model does not")))
                | _ -> raise (Rej (what ^ ": result while the model is mid-call")));
               ignore lo
             | "fr_call_publish" | "fr_published" | "fr_call_current" -> pending_scan_end t
             | _ -> ())
          | _ -> ()) lines;
        for t = 0 to 8 do pending_scan_end t done;
        for t = 0 to 8 do (match !s.fpcs (n t) with FIdle -> () | _ -> raise (Rej (Printf.sprintf "thread %d finished mid-operation in the model" t))) done;
        let real_f = int_of_string (field !header "final_frontier") in
        let mflags = "[" ^ String.concat ", " (List.init ntx (fun k -> if !s.flags (n k) then "1" else "0")) ^ "]" in
        let real = (let hdr = !header in let k = Str.search_forward (Str.regexp_string "flags=") hdr 0 in String.sub hdr (k + 6) (String.length hdr - k - 6)) in
        if i (fcur !s) <> real_f || mflags <> real then
          Printf.printf "STATE-MISMATCH model{frontier=%d flags=%s} real{frontier=%d flags=%s}\n" (i (fcur !s)) mflags real_f real
        else
          Printf.printf "ACCEPT events=%d fetch_max=%d returned=%d helped=%d\n" !nev (List.length !s.fhist - 1) (List.length !s.returned)
            (List.length (List.filter (fun ((_, lo), _) -> i lo > 0) !s.returned))
      with
      | Rej w -> Printf.printf "REJECT at_model_event=%d %s | %s\n" !nev w !header
      | Direct w -> Printf.printf "DIRECT %s | %s\n" w !header)
    end; cur := []; header := "" in
  (try while true do
       let l = input_line ic in
       if l = "--" then flush_case ()
       else if String.length l > 0 && l.[0] = '#' then header := l
       else cur := l :: !cur
     done with End_of_file -> flush_case ())
