(* Line driver for the extracted Guard model (C12): reads the cases written by harness/src/bin/guard.rs
   from stdin and prints, per line, what the model says the real code does (format of guard.impl). *)
open Guard
let rec nat_of_int n = if n <= 0 then O else S (nat_of_int (n - 1))
let rec int_of_nat = function O -> 0 | S n -> 1 + int_of_nat n

let load_of = function
  | "F" -> LoadFailed
  | "P" -> Loaded None
  | "D0" -> Loaded (Some false)
  | "D1" -> Loaded (Some true)
  | s -> failwith ("load label " ^ s)

let class_of d = match decision_result d with
  | Some StateChangeDuringStaticCall -> "STATIC"
  | Some NotActivated -> "NOTACT"
  | Some FatalExternalError -> "FATAL"
  | Some _ -> "?"
  | None -> "STOCK"

let b s = s = "1"

let () =
  try
    while true do
      let line = input_line stdin in
      match String.split_on_char ' ' (String.trim line) with
      | "gas" :: sp :: _ ->
          let sp = nat_of_int (int_of_string sp) in
          let g = toy_gravity sp and s = toy_stock sp in
          let nd = ref 0 in
          for op = 0 to 255 do
            let o = nat_of_int op in
            if int_of_nat (g o).e_gas <> int_of_nat (s o).e_gas then incr nd
          done;
          Printf.printf "ndiff=%d create=%d create2=%d\n" !nd (int_of_nat (g cREATE).e_gas) (int_of_nat (g cREATE2).e_gas)
      | "op" :: sp :: op :: tag :: _ ->
          (* one machine step of the toy instance with each table, frame account plain / delegated *)
          let sp = nat_of_int (int_of_string sp) and op = nat_of_int (int_of_string op) in
          let d = if tag = "D" then Some false else None in
          let init = toy_init [op; O] false sp d in
          let one = S O in
          print_endline (if toy_run (toy_gravity sp) one init = toy_run (toy_stock sp) one init then "same" else "diff")
      | "dec" :: sp :: st :: c2 :: ld :: _ ->
          let sp = nat_of_int (int_of_string sp) in
          let d = guard_decision (b st) (b c2) sp (load_of ld) in
          let host = consults_host (b st) (b c2) sp in
          let eq = match d with DStatic | DPrePetersburg | DStock -> true | DFatal | DDelegated -> false in
          (* cross-check inside the model: where the guard stops before the host the stock prefix
             returns the same error *)
          let pre_ok = host || decision_result d = stock_prefix (b st) (b c2) sp in
          Printf.printf "%s host=%d first=%s eq=%d%s\n" (class_of d) (if host then 1 else 0)
            (if host then "T" else "-") (if eq then 1 else 0) (if pre_ok then "" else " PREFIX-MISMATCH")
      | "ev" :: sp :: st :: c2 :: ld :: _ ->
          let sp = nat_of_int (int_of_string sp) in
          print_endline (class_of (guard_decision (b st) (b c2) sp (load_of ld)))
      | "sel" :: sp :: forbid :: reserve :: dist :: _ ->
          let sp = nat_of_int (int_of_string sp) in
          let c = { forbid_delegated_create = b forbid; reserve_delegated_balance = b reserve } in
          print_endline (if not (b dist) then "-" else if guard_selected c sp then "G" else "S")
      | _ -> print_endline "?"
    done
  with End_of_file -> ()
