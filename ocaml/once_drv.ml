(* C14 trace acceptor: maps the hook events of racing entry-point calls to Once.Model events. *)
open Once
let rec nat_of_int n = if n <= 0 then O else S (nat_of_int (n - 1))
let rec int_of_nat = function O -> 0 | S n -> 1 + int_of_nat n
let () =
  let ic = open_in Sys.argv.(1) in
  let cur = ref [] and header = ref "" in
  let flush_case () =
    if !header <> "" then begin
      let lines = List.rev !cur in
      let evs = ref [] in
      let caller_of : (string, int) Hashtbl.t = Hashtbl.create 4 in
      List.iter (fun l -> match String.split_on_char ' ' l with
          | tid :: kind :: args ->
            let a = Array.of_list (List.map (fun x -> try int_of_string x with _ -> -1) args) in
            let c () = nat_of_int (try Hashtbl.find caller_of tid with Not_found -> 99) in
            (match kind with
             | "once_call" -> Hashtbl.replace caller_of tid a.(0)
             | "run_once_enter" -> evs := OEnter (c ()) :: !evs
             | "run_once_won" -> evs := OBody (c ()) :: OCas (c (), true) :: !evs
             | "once_ret" -> if a.(1) = 0 then evs := OReturnErr (c ()) :: OCas (c (), false) :: !evs
             | _ -> ())
          | _ -> ()) lines;
      let evs = List.rev !evs in
      let (sfin, rej) = orun_diag oinit evs O in
      (match rej with
       | Some i -> Printf.printf "REJECT at_model_event=%d %s\n" (int_of_nat i) !header
       | None -> Printf.printf "ACCEPT events=%d body_runs=%d %s\n" (List.length evs) (List.length sfin.body_runs) !header)
    end; cur := []; header := "" in
  (try while true do
       let l = input_line ic in
       if l = "--" then flush_case ()
       else if String.length l > 0 && l.[0] = '#' then header := l
       else cur := l :: !cur
     done with End_of_file -> flush_case ())
