(* Line driver for the extracted Reserve models (C13): reads the cases written by
   harness/src/bin/reserve.rs from stdin, prints what the model returns in the .impl format. *)
open Reserve

let rec nat_of_int n = if n <= 0 then O else S (nat_of_int (n - 1))
let rec int_of_nat = function O -> 0 | S n -> 1 + int_of_nat n

(* N <-> hex strings, bit by bit (no bignum library needed) *)
let n_double = function N0 -> N0 | Npos p -> Npos (XO p)
let n_succ_double = function N0 -> Npos XH | Npos p -> Npos (XI p)
let n_of_hex (s : string) : n =
  let acc = ref N0 in
  String.iter (fun c ->
    let d = match c with
      | '0'..'9' -> Char.code c - 48
      | 'a'..'f' -> Char.code c - 87
      | 'A'..'F' -> Char.code c - 55
      | _ -> failwith ("bad hex " ^ s) in
    for b = 3 downto 0 do
      acc := if (d lsr b) land 1 = 1 then n_succ_double !acc else n_double !acc
    done) s;
  !acc
let hex_of_n (v : n) : string =
  match v with
  | N0 -> "0"
  | Npos p ->
      (* bits least significant first *)
      let rec bits p = match p with XH -> [1] | XO q -> 0 :: bits q | XI q -> 1 :: bits q in
      let bs = Array.of_list (bits p) in
      let nb = Array.length bs in
      let nd = (nb + 3) / 4 in
      let b = Buffer.create nd in
      for d = nd - 1 downto 0 do
        let v = ref 0 in
        for k = 3 downto 0 do
          let i = d * 4 + k in
          v := !v * 2 + (if i < nb then bs.(i) else 0)
        done;
        Buffer.add_char b "0123456789abcdef".[!v]
      done;
      Buffer.contents b
let int_of_hex s = int_of_string ("0x" ^ s)

(* token stream *)
let toks = ref [||]
let pos = ref 0
let next () = let t = !toks.(!pos) in incr pos; t
let next_n () = n_of_hex (next ())
let next_int () = int_of_hex (next ())
let next_nat () = nat_of_int (next_int ())

let read_tx () : tx =
  let caller = next_n () in
  let k = next () in
  let kind = if k = "C" then KCreate else KCall (n_of_hex (String.sub k 1 (String.length k - 1))) in
  let value = next_n () in
  let gas_limit = next_n () in
  let gas_price = next_n () in
  let tx_type = next_n () in
  let blob_count = next_n () in
  let max_fee_per_blob_gas = next_n () in
  { caller; kind; value; gas_limit; gas_price; tx_type; blob_count; max_fee_per_blob_gas }

let rec list_init n f = if n <= 0 then [] else let x = f () in x :: list_init (n - 1) f

let planner_case b =
  let n = int_of_string (next ()) in
  let txs = list_init n read_tx in
  let nq = int_of_string (next ()) in
  let qs = list_init nq (fun () -> let t = next_nat () in let a = next_n () in (t, a)) in
  let perm = list_init nq next_int in
  Buffer.add_string b "c:";
  List.iter (fun t -> match max_balance_spending t with
    | Some c -> Buffer.add_string b (hex_of_n c ^ ",")
    | None -> Buffer.add_string b "X,") txs;
  (* the lazy state machine in query order *)
  let (_, vs) = run_queries txs pinit qs in
  Buffer.add_string b " q:";
  List.iter (fun v -> Buffer.add_string b (hex_of_n v ^ ",")) vs;
  (* the lazy state machine in the permuted order, reported in query order *)
  let qa = Array.of_list qs in
  let (_, ws) = run_queries txs pinit (List.map (fun k -> qa.(k)) perm) in
  let ans = Array.make nq N0 in
  List.iter2 (fun k w -> ans.(k) <- w) perm ws;
  Buffer.add_string b " r:";
  Array.iter (fun v -> Buffer.add_string b (hex_of_n v ^ ",")) ans;
  (* internal consistency of the three model views (proved equal in PlannerProofs.v) *)
  List.iter2 (fun (t, a) v ->
    if required_after txs t a <> v || required_spec txs t a <> v then Buffer.add_string b " MODEL-INCONSISTENT") qs vs


(* ---- journal ---- *)
let read_entry () : entry =
  match next () with
  | "T" -> let f = next_n () in let t = next_n () in let v = next_n () in BalanceTransfer (f, t, v)
  | "D" -> let a = next_n () in let t = next_n () in let h = next_n () in AccountDestroyed (a, t, h)
  | "C" -> let a = next_n () in let o = next_n () in BalanceChange (a, o)
  | "O" -> Other
  | k -> failwith ("bad entry " ^ k)

let read_state () : (n * (n * bool)) list =
  let ns = int_of_string (next ()) in
  list_init ns (fun () -> let a = next_n () in let b = next_n () in let d = next () = "1" in (a, (b, d)))

(* order hex strings numerically *)
let hex_cmp a b = compare (String.length a, a) (String.length b, b)

let journal_case b =
  let cp = next_nat () in
  let t = read_tx () in
  let st = read_state () in
  let ne = int_of_string (next ()) in
  let entries = list_init ne read_entry in
  let ds = delegated_debits_since entries cp t st in
  let ds = List.map (fun ((a, before), fin) -> (hex_of_n a, hex_of_n before, hex_of_n fin)) ds in
  let ds = List.sort (fun (a, _, _) (a', _, _) -> hex_cmp a a') ds in
  Buffer.add_string b "d:";
  List.iter (fun (a, x, y) -> Buffer.add_string b (Printf.sprintf "%s:%s:%s," a x y)) ds;
  let np = int_of_string (next ()) in
  Buffer.add_string b " bb:";
  for _ = 1 to np do
    let k = next_nat () in let a = next_n () in let fin = next_n () in
    Buffer.add_string b (hex_of_n (balance_before_entry entries k a fin) ^ ",")
  done

(* ---- end-to-end: the full extracted rule (planner + scan + reverse walk + comparison) decides,
   per transaction, between the policy-off outcome and the charged top-level revert ---- *)
let e2e_case b =
  let n = int_of_string (next ()) in
  let txs = list_init n read_tx in
  let m = int_of_string (next ()) in
  let outs = Buffer.create 64 and bits = Buffer.create 16 in
  for _ = 1 to m do
    match next () with
    | "K" ->
        let _ = next () in
        Buffer.add_string outs (next () ^ ","); Buffer.add_char bits '0'
    | "X" ->
        let txid = next_nat () in
        let st = read_state () in
        let ne = int_of_string (next ()) in
        let entries = list_init ne read_entry in
        let off = next () in
        let viol = next () in
        if reserve_violation txs txid entries O st
        then (Buffer.add_string outs (viol ^ ","); Buffer.add_char bits '1')
        else (Buffer.add_string outs (off ^ ","); Buffer.add_char bits '0')
    | k -> failwith ("bad e2e item " ^ k)
  done;
  Buffer.add_string b ("o:" ^ Buffer.contents outs ^ " v:" ^ Buffer.contents bits);
  Buffer.add_string b " par=seq:1 off=stock:1 final:1 fund:1"

(* ---- the rule on an arbitrary journal ---- *)
let rule_case b =
  let _malformed = next () in
  let n = int_of_string (next ()) in
  let txs = list_init n read_tx in
  let txid = next_nat () in
  let cp = next_nat () in
  let st = read_state () in
  let ne = int_of_string (next ()) in
  let entries = list_init ne read_entry in
  Buffer.add_string b (if reserve_violation txs txid entries cp st then "v:1" else "v:0")

let () =
  try
    while true do
      let line = input_line stdin in
      toks := Array.of_list (List.filter (fun s -> s <> "") (String.split_on_char ' ' (String.trim line)));
      pos := 0;
      let b = Buffer.create 256 in
      (try
        match next () with
        | "planner" -> planner_case b
        | "journal" -> journal_case b
        | "e2e" -> e2e_case b
        | "rule" -> rule_case b
        | k -> Buffer.add_string b ("? " ^ k)
      with e -> Buffer.add_string b (" DRIVER-ERROR " ^ Printexc.to_string e));
      print_endline (Buffer.contents b)
    done
  with End_of_file -> ()
