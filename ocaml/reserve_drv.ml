(* Line driver for the extracted Reserve models (C13): reads the cases written by
   harness/src/bin/reserve.rs from stdin, prints what the model returns in the .impl format. *)
open Reserve

let rec nat_of_int n = if n <= 0 then O else S (nat_of_int (n - 1))
let rec int_of_nat = function O -> 0 | S n -> 1 + int_of_nat n

(* N <-> hex strings, bit by bit (no bignum library needed) *)
let n_double = function N0 -> N0 | Npos p -> Npos (XO p)
let n_succ_double = function N0 -> Npos XH | Npos p -> Npos (XI p)
let n_of_hex (s : string) : n =
  let acc = ref N0 in
  String.iter (fun c ->
    let d = match c with
      | '0'..'9' -> Char.code c - 48
      | 'a'..'f' -> Char.code c - 87
      | 'A'..'F' -> Char.code c - 55
      | _ -> failwith ("bad hex " ^ s) in
    for b = 3 downto 0 do
      acc := if (d lsr b) land 1 = 1 then n_succ_double !acc else n_double !acc
    done) s;
  !acc
let hex_of_n (v : n) : string =
  match v with
  | N0 -> "0"
  | Npos p ->
      (* bits least significant first *)
      let rec bits p = match p with XH -> [1] | XO q -> 0 :: bits q | XI q -> 1 :: bits q in
      let bs = Array.of_list (bits p) in
      let nb = Array.length bs in
      let nd = (nb + 3) / 4 in
      let b = Buffer.create nd in
      for d = nd - 1 downto 0 do
        let v = ref 0 in
        for k = 3 downto 0 do
          let i = d * 4 + k in
          v := !v * 2 + (if i < nb then bs.(i) else 0)
        done;
        Buffer.add_char b "0123456789abcdef".[!v]
      done;
      Buffer.contents b
let int_of_hex s = int_of_string ("0x" ^ s)

(* token stream *)
let toks = ref [||]
let pos = ref 0
let next () = let t = !toks.(!pos) in incr pos; t
let next_n () = n_of_hex (next ())
let next_int () = int_of_hex (next ())
let next_nat () = nat_of_int (next_int ())

let read_tx () : tx =
  let caller = next_n () in
  let k = next () in
  let kind = if k = "C" then KCreate else KCall (n_of_hex (String.sub k 1 (String.length k - 1))) in
  let value = next_n () in
  let gas_limit = next_n () in
  let gas_price = next_n () in
  let tx_type = next_n () in
  let blob_count = next_n () in
  let max_fee_per_blob_gas = next_n () in
  { caller; kind; value; gas_limit; gas_price; tx_type; blob_count; max_fee_per_blob_gas }

let rec list_init n f = if n <= 0 then [] else let x = f () in x :: list_init (n - 1) f

let planner_case b =
  let n = int_of_string (next ()) in
  let txs = list_init n read_tx in
  let nq = int_of_string (next ()) in
  let qs = list_init nq (fun () -> let t = next_nat () in let a = next_n () in (t, a)) in
  let perm = list_init nq next_int in
  Buffer.add_string b "c:";
  List.iter (fun t -> match max_balance_spending t with
    | Some c -> Buffer.add_string b (hex_of_n c ^ ",")
    | None -> Buffer.add_string b "X,") txs;
  (* the lazy state machine in query order *)
  let (_, vs) = run_queries txs pinit qs in
  Buffer.add_string b " q:";
  List.iter (fun v -> Buffer.add_string b (hex_of_n v ^ ",")) vs;
  (* the lazy state machine in the permuted order, reported in query order *)
  let qa = Array.of_list qs in
  let (_, ws) = run_queries txs pinit (List.map (fun k -> qa.(k)) perm) in
  let ans = Array.make nq N0 in
  List.iter2 (fun k w -> ans.(k) <- w) perm ws;
  Buffer.add_string b " r:";
  Array.iter (fun v -> Buffer.add_string b (hex_of_n v ^ ",")) ans;
  (* internal consistency of the three model views (proved equal in PlannerProofs.v) *)
  List.iter2 (fun (t, a) v ->
    if required_after txs t a <> v || required_spec txs t a <> v then Buffer.add_string b " MODEL-INCONSISTENT") qs vs

let () =
  try
    while true do
      let line = input_line stdin in
      toks := Array.of_list (List.filter (fun s -> s <> "") (String.split_on_char ' ' (String.trim line)));
      pos := 0;
      let b = Buffer.create 256 in
      (try
        match next () with
        | "planner" -> planner_case b
        | k -> Buffer.add_string b ("? " ^ k)
      with e -> Buffer.add_string b (" DRIVER-ERROR " ^ Printexc.to_string e));
      print_endline (Buffer.contents b)
    done
  with End_of_file -> ()
