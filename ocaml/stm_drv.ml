(* Trace acceptor driver: reads one trace file (format of harness/src/bin/e2e.rs), converts hook
   events to Stm.Core events, builds each transaction's [prog] from the observation table of all
   attempts in the trace, runs the extracted acceptor and prints a verdict line:
     ACCEPT events=<n> model_events=<m> commits=<c> seq=<outcome ids> outs=<outcome ids> ...
     REJECT at=<line> event=<text> reason=<which clause>
     NONDET tx=<j> ...   (an attempt contradicts "deterministic function of its reads")
   Unmodelled hook kinds (scheduling heuristics) are counted and skipped. *)
open Stm

let rec nat_of_int n = if n <= 0 then O else S (nat_of_int (n - 1))
let rec int_of_nat = function O -> 0 | S n -> 1 + int_of_nat n
let n = nat_of_int
let opt_n x = if x < 0 then None else Some (n x)

type step = SMv of int * (int * int) option (* loc, (writer, value) *) | SB of int * int | SBen of int option
type row = { steps : step list; result : Stm.result }

exception Nondet of string

(* build a prog from rows (all rows start at the same node) *)
let rec build (rows : row list) : Stm.prog =
  match rows with
  | [] -> Done (RFatal (n 999))
  | r0 :: _ ->
    (match r0.steps with
     | [] ->
       List.iter (fun r -> if r.steps <> [] || r.result <> r0.result then raise (Nondet "different results / continuation after identical reads")) rows;
       Done r0.result
     | SMv (l, _) :: _ ->
       let rest = List.map (fun r -> match r.steps with
           | SMv (l', o) :: tl when l' = l -> (o, { r with steps = tl })
           | _ -> raise (Nondet (Printf.sprintf "attempts disagree on the next access after identical reads (expected lookup of %d)" l))) rows in
       Rd (n l, fun (o : (nat * nat) option) ->
           let key = match o with None -> None | Some (w, v) -> Some (int_of_nat w, int_of_nat v) in
           build (List.filter_map (fun (o', r) -> if o' = key then Some r else None) rest))
     | SBen _ :: _ ->
       let rest = List.map (fun r -> match r.steps with
           | SBen o :: tl -> (o, { r with steps = tl })
           | _ -> raise (Nondet "attempts disagree on the next access after identical reads (expected beneficiary read)")) rows in
       RdBen (fun o -> let key = match o with None -> None | Some v -> Some (int_of_nat v) in
           build (List.filter_map (fun (o', r) -> if o' = key then Some r else None) rest))
     | SB (l, _) :: _ ->
       let rest = List.map (fun r -> match r.steps with
           | SB (l', v) :: tl when l' = l -> (v, { r with steps = tl })
           | _ -> raise (Nondet (Printf.sprintf "attempts disagree on the next access after identical reads (expected base read of %d)" l))) rows in
       RdBase (n l, fun v -> let key = int_of_nat v in
           build (List.filter_map (fun (v', r) -> if v' = key then Some r else None) rest)))

let () =
  let file = Sys.argv.(1) in
  let ic = open_in file in
  let lines = ref [] in
  (try while true do lines := input_line ic :: !lines done with End_of_file -> ());
  let lines = List.rev !lines in
  let ntx = ref 0 and chk = ref true in
  let pre : (int, int) Hashtbl.t = Hashtbl.create 64 in
  let marker : (int, int) Hashtbl.t = Hashtbl.create 64 in
  let nonce_of : (int, int) Hashtbl.t = Hashtbl.create 64 in
  let txinfo : (int, int * int) Hashtbl.t = Hashtbl.create 16 in
  let benobs : (int, int) Hashtbl.t = Hashtbl.create 16 in
  let benloc = ref None in
  (* pass 1: header + observation tables *)
  let cur_attempt : (int, step list ref * (int * int) list ref) Hashtbl.t = Hashtbl.create 16 in
  let tables : (int, row list ref) Hashtbl.t = Hashtbl.create 16 in
  let events = ref [] in
  List.iteri (fun lineno line ->
      let toks = String.split_on_char ' ' (String.trim line) in
      match toks with
      | "#" :: rest ->
        (match rest with
         | hd :: _ when String.length hd > 2 && String.sub hd 0 2 = "n=" ->
           List.iter (fun kv -> match String.split_on_char '=' kv with
               | ["n"; v] -> ntx := int_of_string v
               | ["chk"; v] -> chk := v = "1"
               | _ -> ()) rest
         | ["pre"; l; v] -> Hashtbl.replace pre (int_of_string l) (int_of_string v)
         | ["marker"; l; m] -> Hashtbl.replace marker (int_of_string l) (int_of_string m)
         | ["nonce"; v; k] -> Hashtbl.replace nonce_of (int_of_string v) (int_of_string k)
         | ["tx"; j; l; k] -> Hashtbl.replace txinfo (int_of_string j) (int_of_string l, int_of_string k)
         | ["benobs"; j; v] -> Hashtbl.replace benobs (int_of_string j) (int_of_string v)
         | ["benloc"; l] -> benloc := Some (int_of_string l)
         | _ -> ())
      | tid :: kind :: args when tid <> "" ->
        let a = Array.of_list (List.map int_of_string args) in
        events := (lineno, int_of_string tid, kind, a) :: !events;
        (match kind with
         | "exec_begin" -> Hashtbl.replace cur_attempt a.(0) (ref [], ref [])
         | "mv_read" ->
           (match Hashtbl.find_opt cur_attempt a.(0) with
            | Some (steps, _) -> steps := SMv (a.(1), if a.(2) < 0 then None else Some (a.(2), a.(5))) :: !steps
            | None -> ())
         | "base_read" ->
           (match Hashtbl.find_opt cur_attempt a.(0) with
            | Some (steps, _) -> steps := SB (a.(1), a.(2)) :: !steps
            | None -> ())
         | "ben_resolve" ->
           (match Hashtbl.find_opt cur_attempt a.(0) with
            | Some (steps, _) -> steps := SBen (if a.(1) = 1 then Some a.(2) else None) :: !steps
            | None -> ())
         | "publish" ->
           (match Hashtbl.find_opt cur_attempt a.(0) with
            | Some (_, ws) -> ws := (a.(1), a.(3)) :: !ws
            | None -> ())
         | "exec_ret" ->
           (match Hashtbl.find_opt cur_attempt a.(0) with
            | Some (steps, ws) ->
              let result = match a.(2) with
                | 0 -> ROk (List.rev_map (fun (l, v) -> (n l, n v)) !ws, n a.(5))
                | 1 -> RInvalid (n a.(5))
                | _ -> RFatal (n a.(5)) in
              let t = match Hashtbl.find_opt tables a.(0) with Some t -> t | None -> let t = ref [] in Hashtbl.replace tables a.(0) t; t in
              t := { steps = List.rev !steps; result } :: !t;
              Hashtbl.remove cur_attempt a.(0)
            | None -> ())
         | _ -> ())
      | _ -> ()) lines;
  let events = List.rev !events in
  (* canonical write-set order inside results: sort by location so that equal sets compare equal *)
  let canon r = match r.result with
    | ROk (ws, o) -> { r with result = ROk (List.sort compare ws, o) }
    | _ -> r in
  let progs =
    try List.init !ntx (fun j ->
        let rows = match Hashtbl.find_opt tables j with Some t -> List.map canon !t | None -> [] in
        (j, build rows))
    with Nondet why -> Printf.printf "NONDET %s\n" why; exit 0 in
  let txs = List.map (fun (j, p) ->
      let (nl, k) = match Hashtbl.find_opt txinfo j with Some x -> x | None -> (0, 0) in
      { body = p; nonce_loc = n nl; tx_nonce = n k }) progs in
  let blk = { txs = txs;
              pre = (fun l -> match Hashtbl.find_opt pre (int_of_nat l) with Some v -> n v | None -> n 100000);
              marker = (fun l -> match Hashtbl.find_opt marker (int_of_nat l) with Some m -> Some (n m) | None -> None);
              nonce_of = (fun v -> match Hashtbl.find_opt nonce_of (int_of_nat v) with Some k -> n k | None -> O);
              chk = !chk;
              nonce_reason = (fun a b -> O);
              ben_loc = (match !benloc with Some l -> Some (n l) | None -> None);
              ben_obs = (fun j -> match Hashtbl.find_opt benobs (int_of_nat j) with Some v -> n v | None -> n 100001) } in
  (* pass 2: convert hook events to model events *)
  let in_cs : (int, int) Hashtbl.t = Hashtbl.create 8 in   (* thread -> tx whose critical section it is in *)
  let status_of = function
    | 0 -> Initial | 1 -> Executing | 2 -> Executed | 3 -> Validating | 4 -> Unconfirmed | 5 -> Conflict | _ -> Final in
  let skipped = ref 0 in
  let model = ref [] in
  let push ln e = model := (ln, e) :: !model in
  List.iter (fun (ln, tid, kind, a) ->
      match kind with
      | "exec_claim" -> push ln (XClaim (n a.(0), status_of a.(1), n a.(2)))
      | "exec_skip" -> push ln (XSkip (n a.(0)))
      | "exec_begin" -> Hashtbl.replace in_cs tid a.(0); push ln (XBegin (n a.(0), n a.(1)))
      | "mv_read" -> push ln (XRead (n a.(0), n a.(1), (if a.(2) < 0 then None else Some (n a.(2), n a.(3))), a.(4) = 1))
      | "base_read" -> push ln (XBase (n a.(0), n a.(1), n a.(2)))
      | "ben_resolve" -> push ln (XBen (n a.(0), (if a.(1) = 1 then Some (n a.(2)) else None)))
      | "val_ben" -> push ln (VBen (n a.(0), a.(1) = 1))
      | "publish" -> push ln (XPublish (n a.(0), n a.(1), n a.(2), n a.(3), a.(4) = 1))
      | "exec_ret" -> push ln (XRet (n a.(0), n a.(1), n a.(2), a.(3) = 1))
      | "unpublish" -> push ln (XUnpublish (n a.(0), n a.(1)))
      | "mark_est" -> push ln (XMarkEst (n a.(0), n a.(1), a.(2) = 1))
      | "exec_status" -> push ln (XStatus (n a.(0), a.(1) = 1, a.(2) = 1))
      | "clock_tick" ->
        (match Hashtbl.find_opt in_cs tid with
         | Some j -> push ln (Tick (n j, n a.(0)))
         | None -> push ln (Tick (n 99999, n a.(0))))
      | "lower_max" ->
        (match Hashtbl.find_opt in_cs tid with
         | Some j -> push ln (Lower (n j, n a.(0), n a.(1)))
         | None -> push ln (Lower (n 99999, n a.(0), n a.(1))))
      | "exec_end" -> Hashtbl.remove in_cs tid; push ln (XEnd (n a.(0), n a.(1)))
      | "val_claim" -> push ln (VClaim (n a.(0), status_of a.(1), n a.(2)))
      | "val_skip" -> push ln (VSkip (n a.(0)))
      | "val_begin" -> Hashtbl.replace in_cs tid a.(0); push ln (VBegin (n a.(0), n a.(1), n a.(2)))
      | "val_check" -> push ln (VCheck (n a.(0), n a.(1), (if a.(2) < 0 then None else Some (n a.(2), n a.(3))), a.(4) = 1))
      | "val_scanned" -> push ln (VScanned (n a.(0), a.(1) = 1))
      | "val_status" -> push ln (VStatus (n a.(0), a.(1) = 1, n a.(2)))
      | "val_end" -> Hashtbl.remove in_cs tid; push ln (VEnd (n a.(0)))
      | "finalize" -> push ln (Finalize (n a.(0), n a.(1), n a.(2)))
      | "fin_publish" -> push ln (FinPublish (n a.(0)))
      | "commit_take" -> push ln (CTake (n a.(0)))
      | "commit_done" -> push ln (CDone (n a.(0), n a.(1)))
      | "commit_publish" -> push ln (CPublish (n a.(0)))
      | "abort" -> push ln (Abort (n a.(0), opt_n a.(1), a.(2) = 1))
      | "post_execute" -> push ln (PostExecute (n a.(0), opt_n a.(1)))
      | _ -> incr skipped) events;
  let model = List.rev !model in
  let evs = List.map snd model in
  let (sfin, rej) = try run_diag blk init evs O with Nondet why -> Printf.printf "NONDET %s\n" why; exit 0 in
  (match rej with
   | Some i ->
     let i = int_of_nat i in
     let (ln, _) = List.nth model i in
     Printf.printf "REJECT at_line=%d model_event=%d text=%s\n" (ln + 1) i (List.nth lines ln)
   | None ->
     let ((seq_outs, _), seq_err) = try seq_block blk with Nondet why -> Printf.printf "NONDET(seq) %s\n" why; exit 0 in
     let show os = String.concat "," (List.map (function OExec o -> "X" ^ string_of_int (int_of_nat o) | OSkip r -> "K" ^ string_of_int (int_of_nat r)) os) in
     Printf.printf "ACCEPT events=%d model_events=%d skipped=%d commits=%d fidx=%d outs=%s seq=%s seq_err=%s finished=%b\n"
       (List.length events) (List.length evs) !skipped (int_of_nat sfin.cidx) (int_of_nat sfin.fidx)
       (show sfin.outs) (show seq_outs)
       (match seq_err with None -> "none" | Some (j, e) -> Printf.sprintf "%d:%d" (int_of_nat j) (int_of_nat e))
       sfin.finished)
