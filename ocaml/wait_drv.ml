(* C17 trace acceptor driver: one verdict line per case of a waitobj output file. *)
open Wait
let rec nat_of_int n = if n <= 0 then O else S (nat_of_int (n - 1))
let rec int_of_nat = function O -> 0 | S n -> 1 + int_of_nat n

let () =
  let ic = open_in Sys.argv.(1) in
  let cur = ref [] and header = ref "" and ncase = ref 0 in
  let flush_case () =
    if !cur <> [] || !header <> "" then begin
      let lines = List.rev !cur in
      let evs = ref [] and stall = ref false and pwt = ref false in
      let pid_of_tid : (string, int) Hashtbl.t = Hashtbl.create 4 in
      List.iter (fun l ->
          match String.split_on_char ' ' l with
          | tid :: kind :: args ->
            let a = Array.of_list (List.map (fun x -> try int_of_string x with _ -> -1) args) in
            (match kind with
             | "ws_register" -> evs := WRegister :: !evs
             | "ws_check1" -> evs := WCheck1 (a.(1) = 1) :: !evs
             | "ws_check2" -> evs := WCheck2 (a.(1) = 1) :: !evs
             | "PARK" -> pwt := (a.(0) = 1); evs := WPark :: !evs
             | "ws_wake" -> if not !pwt then evs := WWake :: !evs
             | "ws_unblock" -> Hashtbl.replace pid_of_tid tid a.(0); evs := PUnblock (nat_of_int a.(0)) :: !evs
             | "ws_again" -> evs := PAgain (nat_of_int a.(0)) :: !evs
             | "ws_reblock" -> evs := Reblock :: !evs
             | "ws_notify" ->
               let p = nat_of_int (try Hashtbl.find pid_of_tid tid with Not_found -> 0) in
               let reg = a.(1) = 1 in
               evs := (if reg then [] else [PSkip p]) @ (PNotifyRead (p, reg) :: !evs)
             | "UNPARK" ->
               let p = nat_of_int (try Hashtbl.find pid_of_tid tid with Not_found -> 0) in
               evs := PUnpark p :: !evs
             | "TIMEOUT" -> stall := true
             | _ -> ())
          | _ -> ()) lines;
      let evs = List.rev !evs in
      let (sfin, rej) = wrun_diag (winit true) evs O in
      incr ncase;
      (match rej with
       | Some i -> Printf.printf "REJECT case=%d at_model_event=%d stall=%b %s\n" !ncase (int_of_nat i) !stall !header
       | None ->
         Printf.printf "%s case=%d events=%d asleep_unblocked=%b %s\n" (if !stall then "STALL" else "ACCEPT") !ncase (List.length evs) (asleep_unblocked sfin) !header)
    end;
    cur := []; header := "" in
  (try while true do
       let l = input_line ic in
       if l = "--" then flush_case ()
       else if String.length l > 0 && l.[0] = '#' then header := l
       else cur := l :: !cur
     done with End_of_file -> flush_case ())
